# uksym: path-wise symbolic executor over LLVM IR with z3 deciding every fork, assertion and memory check.
# Pointers are concrete (object, offset) pairs; text bytes, integers, masks, capacities and failure choices are
# z3 bit-vector terms.  See /verif/DESIGN.md section 2.1.
import sys, time, os
import z3
from .ir import *
from . import domain

sys.setrecursionlimit(100000)
NULL = ('P', None, 0)

class Violation(Exception):
    def __init__(s, kind, msg): Exception.__init__(s, msg); s.kind = kind; s.msg = msg
class PathEnd(Exception): pass
class Inconclusive(Exception): pass
class Unsupported(Exception): pass

class Obj:
    __slots__ = ('size', 'cells', 'kind', 'ro', 'owner', 'name', 'lo', 'hi', 'limit', 'dead', 'site')
    def copy(o, owner):
        n = Obj(); n.size = o.size; n.cells = list(o.cells); n.kind = o.kind; n.ro = o.ro; n.owner = owner; n.name = o.name
        n.lo = o.lo; n.hi = o.hi; n.limit = o.limit; n.dead = o.dead; n.site = o.site; return n

class Frame:
    __slots__ = ('fn', 'blk', 'ip', 'regs', 'prev', 'dest', 'allocas')
    def copy(f):
        n = Frame(); n.fn = f.fn; n.blk = f.blk; n.ip = f.ip; n.regs = dict(f.regs); n.prev = f.prev; n.dest = f.dest
        n.allocas = list(f.allocas); return n

_sid = [0]
def new_sid():
    _sid[0] += 1; return _sid[0]

class State:
    __slots__ = ('mem', 'frames', 'sid', 'vals', 'dom', 'ent', 'inputs', 'live', 'libc_calls', 'covers', 'decisions', 'nasserts',
                 'notes', 'nfail', 'assumed', 'nobj')
    def clone(s):
        n = State(); n.mem = dict(s.mem); n.frames = [f.copy() for f in s.frames]
        n.sid = new_sid(); s.sid = new_sid()
        n.vals = s.vals; n.dom = dict(s.dom); n.ent = s.ent; n.inputs = list(s.inputs); n.live = dict(s.live); n.libc_calls = s.libc_calls
        n.covers = list(s.covers); n.decisions = list(s.decisions); n.nasserts = s.nasserts; n.notes = list(s.notes)
        n.nfail = s.nfail; n.assumed = s.assumed; n.nobj = s.nobj
        return n

_bvv = {}
def bvval(v, bits):
    k = (v, bits); r = _bvv.get(k)
    if r is None: r = _bvv[k] = z3.BitVecVal(v, bits)
    return r
def ranges_cond(v, bits, rs):
    cs = []
    for lo, hi in rs:
        if lo == hi: cs.append(v == bvval(lo, bits))
        else: cs.append(z3.And(z3.ULE(bvval(lo, bits), v), z3.ULE(v, bvval(hi, bits))))
    return cs[0] if len(cs) == 1 else z3.Or(cs)
_swcache = {}
def switch_alts(I, v):
    key = (id(I), v.get_id()); r = _swcache.get(key)
    if r is not None and r[0] is I and r[1].eq(v): return r[2]
    bits = I[1]; alts = []; allc = []
    for t, rs in I[4]:
        c = ranges_cond(v, bits, rs); alts.append((c, t)); allc.append(c)
    alts.append((z3.Not(z3.Or(allc)) if len(allc) > 1 else z3.Not(allc[0]), I[3]))
    if len(_swcache) > 200000: _swcache.clear()
    _swcache[key] = (I, v, alts); return alts

def sgn(v, bits):
    return v - (1 << bits) if v >> (bits - 1) else v

class Engine:
    def __init__(E, mod, lib_globals=(), opts=None):
        E.mod = mod; E.opts = opts or {}
        E.solver = z3.SolverFor('QF_BV') if not os.environ.get('UK_Z3_DEFAULT') else z3.Solver(); E.solver.set('timeout', int(E.opts.get('solver_timeout_ms', 20000)))
        E.lstack = []; E.npushed = 0; E.xc = 0; E.xc_all = bool(os.environ.get('UK_CROSSCHECK'))
        E.stats = {'paths': 0, 'instr': 0, 'queries': 0, 'solver_s': 0.0, 'forks': 0, 'asserts_checked': 0,
                   'asserts_solver': 0, 'assumed_away': 0, 'memchecks': 0, 'model_hits': 0, 'states': 0, 'dom_pruned': 0, 'dom_feasible': 0, 'dom_crosschecked': 0}
        E.funcs_entered = set(); E.covers = {}; E.cover_models = {}; E.violations = []; E.samples = []; E.ub_notes = {}
        E.assert_counts = {}
        E.lib_globals = set(lib_globals)
        E.globj = {}; E.root = None
        E.max_violations = int(E.opts.get('max_violations', 5))
        E.sample_every = int(E.opts.get('sample_every', 97)); E.max_samples = int(E.opts.get('max_samples', 12))
        E.deadline = E.opts.get('deadline')
        E.strs = {}; E._pure = {}

    # ------------------------------------------------------------------ solver (lazy assertion stack) + finite-domain layer
    def flush(E):
        s = E.solver
        while E.npushed < len(E.lstack):
            s.push(); s.add(E.lstack[E.npushed]); E.npushed += 1
    def check(E, cond):
        """is pc /\\ cond satisfiable?  returns z3 model or None (z3 decides)"""
        t0 = time.time(); s = E.solver; E.flush()
        s.push(); s.add(cond); r = s.check()
        m = s.model() if r == z3.sat else None
        s.pop(); E.stats['queries'] += 1; E.stats['solver_s'] += time.time() - t0
        if r == z3.unknown:
            # the incremental core gave up: ask cvc5 (fresh, full preprocessing), then a fresh z3 instance
            try:
                return E.check_cvc5(cond)
            except Inconclusive:
                pass
            t1 = time.time(); s2 = z3.Solver(); s2.set('timeout', int(E.opts.get('solver_timeout_ms', 20000)) * 3)
            s2.add(list(E.lstack) + [cond]); r2 = s2.check(); E.stats['fresh_queries'] = E.stats.get('fresh_queries', 0) + 1; E.stats['solver_s'] += time.time() - t1
            if r2 == z3.sat: return s2.model()
            if r2 == z3.unsat: return None
            raise Inconclusive('z3 (incremental and fresh) and cvc5 all inconclusive')
        return m
    def check_cvc5(E, cond):
        """second opinion when z3 gives up (multiplication/division kernels): cvc5 with the integer encoding of bit-vectors"""
        import subprocess, tempfile, re
        t0 = time.time(); s = E.solver
        s.push(); s.add(cond); txt = s.to_smt2(); s.pop()
        vs = sorted(domain.vars_of(z3.And(list(E.lstack) + [cond])))
        names = [domain._varast[v] for v in vs]
        txt = '(set-option :produce-models true)\n' + txt.replace('(check-sat)', '(check-sat)\n' + ('(get-value (%s))\n' % ' '.join('|%s|' % n.decl().name() for n in names) if names else ''))
        with tempfile.NamedTemporaryFile('w', suffix='.smt2', delete=False, dir=E.opts.get('tmpdir')) as f: f.write(txt); path = f.name
        try:
            r = subprocess.run(['cvc5', '--tlimit=%d' % int(E.opts.get('cvc5_timeout_ms', 120000)), path], capture_output=True, text=True, timeout=300)
            out = r.stdout
        except subprocess.TimeoutExpired: out = 'timeout'
        finally:
            if os.environ.get('UK_KEEP_SMT2'): print('kept', path, flush=True)
            else: os.unlink(path)
        E.stats['cvc5_queries'] = E.stats.get('cvc5_queries', 0) + 1; E.stats['solver_s'] += time.time() - t0
        first = out.strip().split('\n')[0] if out.strip() else ''
        if first == 'unsat': return None       # (the following get-value then fails, which is expected)
        if '(error' in out or first != 'sat': raise Inconclusive('z3 unknown and cvc5 inconclusive: ' + out[:200])
        vals = {}
        for mm in re.finditer(r'\(\|?([^\s|()]+)\|? #b([01]+)\)', out): vals[mm.group(1)] = int(mm.group(2), 2)
        for mm in re.finditer(r'\(\|?([^\s|()]+)\|? #x([0-9a-fA-F]+)\)', out): vals[mm.group(1)] = int(mm.group(2), 16)
        return DictModel(vals)
    def vals_from_model(E, st, m):
        return {var.get_id(): m.eval(var, model_completion=True).as_long() for _, _, var in st.inputs}
    def holds(E, st, cond):
        """does cond hold under the state's witness assignment?"""
        tt = domain.truth_table(cond)
        if tt is not None: return bool((tt[1] >> st.vals.get(tt[0], 0)) & 1)
        vs = domain.vars_of(cond)
        if not vs: return z3.is_true(z3.simplify(cond))
        pairs = []
        for v in vs:
            va = domain._varast[v]; pairs.append((va, z3.BitVecVal(st.vals.get(v, 0), va.size())))
        return z3.is_true(z3.simplify(z3.substitute(cond, pairs)))
    def feasible(E, st, cond):
        """returns a witness assignment (dict) for pc /\\ cond, or None if unsatisfiable"""
        tt = domain.truth_table(cond)
        if tt is not None:
            v, mask = tt; d = st.dom.get(v, domain.ALL) & mask
            if d == 0:
                E.stats['dom_pruned'] += 1
                if E.crosscheck(): E.xcheck(cond, False)
                return None
            if (mask >> st.vals.get(v, 0)) & 1: E.stats['model_hits'] += 1; return st.vals
            if v not in st.ent:
                E.stats['dom_feasible'] += 1
                if E.crosscheck(): E.xcheck(cond, True)
                nv = dict(st.vals); nv[v] = domain.lowest(d); return nv
        elif E.holds(st, cond):
            E.stats['model_hits'] += 1; return st.vals
        m = E.check(cond)
        return None if m is None else E.vals_from_model(st, m)
    def crosscheck(E):
        E.xc += 1
        return E.xc_all or E.xc % 61 == 0
    def xcheck(E, cond, expect):
        E.stats['dom_crosschecked'] += 1
        m = E.check(cond)
        if (m is not None) != expect: raise Inconclusive('finite-domain layer disagrees with z3 on ' + str(cond)[:200])
    def assume(E, st, cond):
        """add cond to the path condition"""
        E.lstack.append(cond)
        tt = domain.truth_table(cond)
        if tt is not None: st.dom[tt[0]] = st.dom.get(tt[0], domain.ALL) & tt[1]
        else: st.ent = st.ent | domain.vars_of(cond)
    def pop_to(E, d):
        del E.lstack[d:]
        while E.npushed > d: E.solver.pop(); E.npushed -= 1
    @property
    def depth(E): return len(E.lstack)

    # ------------------------------------------------------------------ memory
    def new_obj(E, st, size, kind, name=None, site=None):
        o = Obj(); o.size = size; o.cells = [0] * size; o.kind = kind; o.ro = False; o.owner = st.sid; o.name = name
        o.lo = 0; o.hi = size; o.limit = None; o.dead = False; o.site = site
        st.nobj += 1; st.mem[st.nobj] = o; return st.nobj
    def wobj(E, st, oid):
        o = st.mem[oid]
        if o.owner != st.sid:
            o = o.copy(st.sid); st.mem[oid] = o
        return o
    def access(E, st, ptr, n, write):
        E.stats['memchecks'] += 1
        if ptr[0] != 'P': raise Violation('mem', 'dereference of non-pointer value %r' % (ptr,))
        oid = ptr[1]
        if oid is None: raise Violation('mem', 'NULL/invalid pointer dereference (offset %d)' % ptr[2])
        o = st.mem.get(oid)
        if o is None: raise Violation('mem', 'dangling pointer')
        if o.dead: raise Violation('mem', ('use after free' if o.kind == 'h' else 'access to killed/out-of-scope object') + ' %s' % (o.name or o.kind))
        off = ptr[2]
        if off < o.lo or off + n > o.hi:
            raise Violation('mem', 'out-of-bounds %s of %d byte(s) at offset %d of object %s (valid %d..%d)' % ('store' if write else 'load', n, off, o.name or o.kind, o.lo, o.hi))
        if write:
            if o.ro: raise Violation('mem', 'store to read-only object %s at offset %d' % (o.name or o.kind, off))
            if o.kind == 'g' and o.name in E.lib_globals: raise Violation('global', 'store to library global %s' % o.name)
            if o.limit is not None:
                lim, esz = o.limit
                c = z3.ULE(lim * esz, z3.BitVecVal(off + n - 1, 64)) if not isinstance(lim, int) else None
                if c is None:
                    if off + n > lim * esz: raise Violation('limit', 'store at byte offset %d beyond capacity limit %d' % (off, lim * esz))
                else:
                    m = E.feasible(st, c)
                    if m is not None:
                        st.vals = m; E.assume(st, c)
                        raise Violation('limit', 'store at byte offset %d of %s beyond the symbolic capacity limit' % (off, o.name))
        else:
            if o.kind == 'g' and o.name in E.lib_globals and not o.ro: E.ub_notes['load from writable library global ' + o.name] = 1
        return o
    def load(E, st, ptr, n, isptr):
        o = E.access(st, ptr, n, False); off = ptr[2]; cells = o.cells
        b0 = cells[off]
        if type(b0) is int:
            if n == 1: return b0
            v = 0; ok = True
            for i in range(n):
                b = cells[off + i]
                if type(b) is not int: ok = False; break
                v |= b << (8 * i)
            if ok:
                if isptr: return ('P', None, v)
                return v
        if type(b0) is tuple:
            if b0[0] == 'p':
                # pointer token bytes
                if b0[2] == 0 and n == 8 and all(type(cells[off + i]) is tuple and cells[off + i][0] == 'p' and cells[off + i][1] is b0[1] and cells[off + i][2] == i for i in range(1, 8)):
                    return b0[1]
                raise Unsupported('partial pointer load')
            if b0[0] == 's':
                # slice tokens of a wider symbolic value
                v = b0[1]
                if b0[2] == 0 and b0[3] == n and all(type(cells[off + i]) is tuple and cells[off + i][0] == 's' and cells[off + i][1] is v and cells[off + i][2] == i for i in range(1, n)):
                    return v
        parts = []
        for i in range(n):
            b = cells[off + i]
            if type(b) is int: parts.append(z3.BitVecVal(b, 8))
            elif type(b) is tuple:
                if b[0] == 's': parts.append(z3.Extract(8 * b[2] + 7, 8 * b[2], b[1]))
                else: raise Unsupported('mixed pointer/data load')
            else: parts.append(b)
        if isptr: raise Unsupported('symbolic pointer load')
        return parts[0] if n == 1 else z3.simplify(z3.Concat(*parts[::-1]))
    def store(E, st, ptr, n, v):
        o = E.access(st, ptr, n, True); o = E.wobj(st, ptr[1]); cells = o.cells; off = ptr[2]
        if type(v) is int:
            for i in range(n): cells[off + i] = (v >> (8 * i)) & 255
        elif type(v) is tuple:
            if v[0] == 'P' and v[1] is None:
                for i in range(n): cells[off + i] = (v[2] >> (8 * i)) & 255
            else:
                for i in range(n): cells[off + i] = ('p', v, i)
        else:
            if z3.is_bool(v): v = z3.If(v, z3.BitVecVal(1, 8 * n), z3.BitVecVal(0, 8 * n))
            if n == 1: cells[off] = v
            else:
                for i in range(n): cells[off + i] = ('s', v, i, n)

    # ------------------------------------------------------------------ globals
    def init_globals(E, st):
        mod = E.mod; parsed = {}
        for name, txt in mod.gdefs.items():
            ts = toks(txt); p = P(ts, mod); p.skip_attrs()
            while p.peek() in ('thread_local',): p.next()
            kind = p.next()
            if kind not in ('global', 'constant'): raise Unsupported('global def ' + txt[:80])
            ty = p.type()
            oid = E.new_obj(st, mod.sizeof(ty), 'g', name); E.globj[name] = oid
            st.mem[oid].ro = (kind == 'constant')
            parsed[name] = (ty, p)
        for name, (ty, p) in parsed.items():
            if p.peek() is None or p.peek() in ('zeroinitializer',) or p.peek() == ',': continue
            E.init_const(st, E.globj[name], 0, ty, p)
    def init_const(E, st, oid, off, ty, p):
        mod = E.mod; o = st.mem[oid]
        if p.eat('zeroinitializer'): return
        if isinstance(ty, (StructT, LitStructT)):
            packed = p.eat('<')
            p.expect('{')
            els = mod.structs[ty.name] if isinstance(ty, StructT) else ty.els
            offs = (mod.layout(ty.name) if isinstance(ty, StructT) else mod.lit_layout(ty))[1]
            for i, et in enumerate(els):
                t2 = p.type(); E.init_const(st, oid, off + offs[i], t2, p); p.eat(',')
            p.expect('}')
            if packed: p.expect('>')
            return
        if isinstance(ty, ArrT):
            t = p.peek()
            if t.startswith('c"'):
                p.next(); raw = t[2:-1]; bs = []; i = 0
                while i < len(raw):
                    if raw[i] == '\\': bs.append(int(raw[i + 1:i + 3], 16)); i += 3
                    else: bs.append(ord(raw[i])); i += 1
                for i, b in enumerate(bs): o.cells[off + i] = b
                return
            p.expect('['); es = mod.sizeof(ty.el)
            for i in range(ty.n):
                t2 = p.type(); E.init_const(st, oid, off + i * es, t2, p); p.eat(',')
            p.expect(']'); return
        v = p.operand(ty); val = E.ev(st, None, v); n = mod.sizeof(ty)
        ro = o.ro; o.ro = False
        nm = o.name; o.name = None   # bypass lib-global store check during initialisation
        E.store(st, ('P', oid, off), n, val)
        o = st.mem[oid]; o.ro = ro; o.name = nm

    def cstring(E, st, ptr):
        if ptr[1] is None: return None
        key = (ptr[1], ptr[2])
        o = st.mem[ptr[1]]; out = []; i = ptr[2]
        while i < o.size and type(o.cells[i]) is int and o.cells[i] != 0:
            out.append(chr(o.cells[i])); i += 1
        return ''.join(out)

    # ------------------------------------------------------------------ operand evaluation
    def ev(E, st, regs, o):
        k = o[0]
        if k == 'r': return regs[o[1]]
        if k == 'k': return o[1]
        if k == 'g':
            g = E.globj.get(o[1])
            if g is not None: return ('P', g, 0)
            return ('F', o[1])
        if k == 'p2i':
            v = E.ev(st, regs, o[1])
            if v[0] == 'P' and v[1] is None: return v[2]
            return ('I', v)
        if k == 'gep':
            b = E.ev(st, regs, o[1])
            if type(b) is not tuple or b[0] != 'P': raise Unsupported('gep on non-pointer %r' % (b,))
            off = b[2] + o[3]
            for scale, ix, bits in o[2]:
                i = E.ev(st, regs, ix)
                if type(i) is not int:
                    raise SymIndex(i, bits)
                if i >> (bits - 1): i -= 1 << bits
                off += scale * i
            return ('P', b[1], off)
        raise Unsupported(repr(o))

    def addr(E, p):
        # deterministic fake numeric address for cross-object comparisons (recorded as ub note)
        if p[1] is None: return p[2]
        return (p[1] << 32) + p[2]

    # ------------------------------------------------------------------ the interpreter
    def run(E, st):
        """run st until the path ends (returns None) or forks (returns list of (cond, thunk))"""
        mod = E.mod; stats = E.stats; ev = E.ev
        while True:
            fr = st.frames[-1]; regs = fr.regs; blocks = fr.fn.blocks
            insts = blocks[fr.blk]; ip = fr.ip
            if ip == 0 and insts and insts[0][0] == 'phi':
                vals = []
                while insts[ip][0] == 'phi':
                    vals.append((insts[ip][1], ev(st, regs, insts[ip][2][fr.prev]))); ip += 1
                for d, v in vals: regs[d] = v
            n = len(insts)
            while True:
                I = insts[ip]; ip += 1; op = I[0]; stats['instr'] += 1
                try:
                    if op == 'mov': regs[I[1]] = ev(st, regs, I[2])
                    elif op == 'load':
                        regs[I[1]] = E.load(st, ev(st, regs, I[3]), I[4], isinstance(I[2], PtrT))
                    elif op == 'store':
                        E.store(st, ev(st, regs, I[3]), I[4], ev(st, regs, I[2]))
                    elif op == 'icmp': regs[I[1]] = E.icmp(st, I[2], I[3], ev(st, regs, I[4]), ev(st, regs, I[5]))
                    elif op == 'br':
                        fr.prev = fr.blk; fr.blk = I[1]; fr.ip = 0; break
                    elif op == 'cbr':
                        c = ev(st, regs, I[1])
                        if type(c) is int:
                            fr.prev = fr.blk; fr.blk = I[2] if c else I[3]; fr.ip = 0; break
                        c = E.tobool(c)
                        fr.ip = ip
                        return E.fork_branch(st, [(c, I[2]), (z3.Not(c), I[3])])
                    elif op == 'bin': regs[I[1]] = E.binop(st, I[2], I[3], ev(st, regs, I[4]), ev(st, regs, I[5]), I[6])
                    elif op == 'zext' or op == 'sext' or op == 'trunc':
                        v = ev(st, regs, I[3]); sb = I[2]; db = I[4]
                        if type(v) is int:
                            if op == 'sext' and v >> (sb - 1): v |= ((1 << db) - 1) ^ ((1 << sb) - 1)
                            regs[I[1]] = v & ((1 << db) - 1)
                        elif type(v) is tuple:
                            if v[0] != 'I': raise Unsupported('cast of pointer')
                            # integer derived from a pointer (e.g. difference with NULL): deterministic fake address, noted
                            E.ub_notes['integer derived from a pointer narrowed/extended in ' + fr.fn.name] = 1
                            regs[I[1]] = E.addr(v[1]) & ((1 << db) - 1)
                        elif z3.is_bool(v):
                            regs[I[1]] = z3.If(v, z3.BitVecVal((1 << db) - 1 if op == 'sext' else 1, db), z3.BitVecVal(0, db))
                        elif op == 'zext': regs[I[1]] = z3.ZeroExt(db - sb, v)
                        elif op == 'sext': regs[I[1]] = z3.SignExt(db - sb, v)
                        else:
                            r = z3.Extract(db - 1, 0, v)
                            if db == 1: r = (r == z3.BitVecVal(1, 1))
                            regs[I[1]] = r
                    elif op == 'call':
                        fr.ip = ip
                        r = E.call(st, fr, I)
                        if r is not None: return r
                        if st.frames[-1] is not fr: break
                    elif op == 'ret':
                        rv = ev(st, regs, I[1]) if I[1] is not None else None
                        if len(st.frames) == 1:
                            E.end_path(st); st.frames.pop(); return None      # path ends: sample texts are rendered while main's locals are still alive
                        for oid in fr.allocas:
                            o = E.wobj(st, oid); o.dead = True; o.cells = []
                        st.frames.pop()
                        if not st.frames:
                            E.end_path(st); return None
                        caller = st.frames[-1]
                        if fr.dest: caller.regs[fr.dest] = rv
                        break
                    elif op == 'select':
                        c = ev(st, regs, I[2])
                        if type(c) is int: regs[I[1]] = ev(st, regs, I[3] if c else I[4])
                        else:
                            a = ev(st, regs, I[3]); b = ev(st, regs, I[4]); c = E.tobool(c)
                            if type(a) is tuple or type(b) is tuple:
                                if a == b: regs[I[1]] = a
                                else:
                                    fr.ip = ip
                                    return E.fork_values(st, I[1], [(c, a), (z3.Not(c), b)])
                            else:
                                bits = I[5]
                                if bits == 1:
                                    regs[I[1]] = z3.If(c, E.tobool(a), E.tobool(b))
                                else:
                                    regs[I[1]] = z3.If(c, E.tobv(a, bits), E.tobv(b, bits))
                    elif op == 'switch':
                        v = ev(st, regs, I[2])
                        if type(v) is int:
                            fr.prev = fr.blk; fr.blk = I[5].get(v, I[3]); fr.ip = 0; break
                        if not I[4]:        # a switch with only a default label
                            fr.prev = fr.blk; fr.blk = I[3]; fr.ip = 0; break
                        fr.ip = ip
                        return E.fork_branch(st, switch_alts(I, v))
                    elif op == 'alloca':
                        oid = E.new_obj(st, I[2], 's', 'stack:' + fr.fn.name); fr.allocas.append(oid); regs[I[1]] = ('P', oid, 0)
                    elif op == 'inttoptr':
                        v = ev(st, regs, I[2])
                        if type(v) is int: regs[I[1]] = ('P', None, v)
                        elif type(v) is tuple and v[0] == 'I': regs[I[1]] = v[1]
                        else: raise Unsupported('inttoptr of symbolic')
                    elif op == 'unreachable': raise Violation('ub', 'reached unreachable')
                    else: raise Unsupported(op)
                except SymIndex as si:
                    # concretise a symbolic array index: fork on every feasible value and re-execute the instruction
                    fr.ip = ip - 1
                    return E.fork_concretize(st, si.term, si.bits)

    def tobv(E, v, bits):
        if type(v) is int: return z3.BitVecVal(v, bits)
        if z3.is_bool(v): return z3.If(v, z3.BitVecVal(1, bits), z3.BitVecVal(0, bits))
        return v
    def tobool(E, v):
        if type(v) is int: return z3.BoolVal(bool(v))
        if z3.is_bool(v): return v
        return v != z3.BitVecVal(0, v.size())

    def icmp(E, st, pred, bits, a, b):
        ta = type(a); tb = type(b)
        if ta is int and tb is int:
            if pred[0] == 's': a = sgn(a, bits); b = sgn(b, bits)
            if pred == 'eq': return int(a == b)
            if pred == 'ne': return int(a != b)
            p = pred[1:]
            return int(a < b if p == 'lt' else a <= b if p == 'le' else a > b if p == 'gt' else a >= b)
        if ta is tuple or tb is tuple:
            if ta is tuple and a[0] == 'I': a = a[1]
            if tb is tuple and b[0] == 'I': b = b[1]
            if type(a) is int: a = ('P', None, a)
            if type(b) is int: b = ('P', None, b)
            if type(a) is not tuple or type(b) is not tuple: raise Unsupported('compare pointer with symbolic integer')
            if pred == 'eq': return int(a == b)
            if pred == 'ne': return int(a != b)
            if a[0] == 'F' or b[0] == 'F': raise Unsupported('relational compare of function pointers')
            if a[1] != b[1]:
                E.ub_notes['relational comparison of pointers into different objects in ' + st.frames[-1].fn.name] = 1
            x = E.addr(a); y = E.addr(b); p = pred[1:]
            return int(x < y if p == 'lt' else x <= y if p == 'le' else x > y if p == 'gt' else x >= y)
        if bits == 1:
            x = E.tobool(a); y = E.tobool(b)
            if pred == 'eq': return x == y
            if pred == 'ne': return z3.Xor(x, y)
            raise Unsupported('relational i1 compare')
        x = E.tobv(a, bits); y = E.tobv(b, bits)
        if x.eq(y): return int(pred in ('eq', 'ule', 'uge', 'sle', 'sge'))
        if pred == 'eq': return x == y
        if pred == 'ne': return x != y
        if pred == 'ult': return z3.ULT(x, y)
        if pred == 'ule': return z3.ULE(x, y)
        if pred == 'ugt': return z3.UGT(x, y)
        if pred == 'uge': return z3.UGE(x, y)
        if pred == 'slt': return x < y
        if pred == 'sle': return x <= y
        if pred == 'sgt': return x > y
        if pred == 'sge': return x >= y
        raise Unsupported(pred)

    def binop(E, st, op, bits, a, b, nsw):
        ta = type(a); tb = type(b); m = (1 << bits) - 1
        if ta is int and tb is int:
            if op == 'add': r = a + b
            elif op == 'sub': r = a - b
            elif op == 'mul': r = a * b
            elif op == 'and': r = a & b
            elif op == 'or': r = a | b
            elif op == 'xor': r = a ^ b
            elif op == 'shl':
                if b >= bits: raise Violation('ub', 'shift amount out of range')
                r = a << b
            elif op == 'lshr':
                if b >= bits: raise Violation('ub', 'shift amount out of range')
                r = a >> b
            elif op == 'ashr':
                if b >= bits: raise Violation('ub', 'shift amount out of range')
                r = sgn(a, bits) >> b
            elif op in ('udiv', 'urem'):
                if b == 0: raise Violation('ub', 'division by zero')
                r = a // b if op == 'udiv' else a % b
            else:
                sa = sgn(a, bits); sb = sgn(b, bits)
                if sb == 0: raise Violation('ub', 'division by zero')
                q = abs(sa) // abs(sb)
                if (sa < 0) != (sb < 0): q = -q
                r = q if op == 'sdiv' else sa - q * sb
            if nsw and op in ('add', 'sub', 'mul'):
                sa = sgn(a, bits); sb = sgn(b, bits)
                t = sa + sb if op == 'add' else sa - sb if op == 'sub' else sa * sb
                if t < -(1 << (bits - 1)) or t >= 1 << (bits - 1):
                    raise Violation('overflow', 'signed integer overflow in %s (%d %s %d)' % (st.frames[-1].fn.name, sa, op, sb))
            return r & m
        if ta is tuple or tb is tuple:
            # pointer-valued integers (ptrtoint results)
            if ta is tuple and tb is tuple and op == 'sub' and a[0] == 'I' and b[0] == 'I':
                pa = a[1]; pb = b[1]
                if pa[1] != pb[1]:
                    E.ub_notes['subtraction of pointers into different objects in ' + st.frames[-1].fn.name] = 1
                    return (E.addr(pa) - E.addr(pb)) & m
                return (pa[2] - pb[2]) & m
            if ta is tuple and a[0] == 'I' and tb is int and op in ('add', 'sub'):
                d = sgn(b, bits); p = a[1]
                return ('I', ('P', p[1], p[2] + (d if op == 'add' else -d)))
            if tb is tuple and b[0] == 'I' and ta is int and op == 'add':
                p = b[1]; return ('I', ('P', p[1], p[2] + sgn(a, bits)))
            if ta is tuple and a[0] == 'I' and tb is int and op == 'sub' and False: pass
            if op == 'sub' and ta is tuple and a[0] == 'I' and tb is int: pass
            if (ta is int or (ta is tuple and a[0] == 'I')) and (tb is int or (tb is tuple and b[0] == 'I')):
                # e.g. (NULL-based pointer difference) / sizeof: evaluated on deterministic fake addresses, noted
                E.ub_notes['arithmetic %s on an integer derived from a pointer in %s' % (op, st.frames[-1].fn.name)] = 1
                return E.binop(st, op, bits, a if ta is int else E.addr(a[1]) & m, b if tb is int else E.addr(b[1]) & m, False)
            raise Unsupported('arithmetic %s on pointer-derived integer in %s' % (op, st.frames[-1].fn.name))
        if bits == 1:
            x = E.tobool(a); y = E.tobool(b)
            if op == 'and': return z3.And(x, y)
            if op == 'or': return z3.Or(x, y)
            if op == 'xor': return z3.Xor(x, y)
            raise Unsupported('i1 ' + op)
        x = E.tobv(a, bits); y = E.tobv(b, bits)
        if nsw and op in ('add', 'sub', 'mul') and E.opts.get('overflow_check', True):
            if op == 'add': bad = z3.Not(z3.And(z3.BVAddNoOverflow(x, y, True), z3.BVAddNoUnderflow(x, y)))
            elif op == 'sub': bad = z3.Not(z3.And(z3.BVSubNoOverflow(x, y), z3.BVSubNoUnderflow(x, y, True)))
            elif ta is int or tb is int:
                c = sgn(a if ta is int else b, bits); sx = y if ta is int else x
                mx = (1 << (bits - 1)) - 1; mn = -(1 << (bits - 1))
                if c == 0 or c == 1: bad = z3.BoolVal(False)
                elif c > 0: bad = z3.Or(sx > z3.BitVecVal(mx // c, bits), sx < z3.BitVecVal(-((-mn) // c), bits))
                elif c == -1: bad = (sx == z3.BitVecVal(mn & ((1 << bits) - 1), bits))
                else: bad = z3.Or(sx < z3.BitVecVal(-(mx // -c), bits), sx > z3.BitVecVal((-mn) // -c, bits))
            else: bad = z3.Not(z3.And(z3.BVMulNoOverflow(x, y, True), z3.BVMulNoUnderflow(x, y)))
            # cheap syntactic filter: operands that are extensions of narrower values cannot overflow add/sub
            if not E.narrow(x, y, bits, op):
                mm = E.feasible(st, bad)
                if mm is not None:
                    st.vals = mm; E.assume(st, bad)
                    raise Violation('overflow', 'signed integer overflow (%s i%d) in %s' % (op, bits, st.frames[-1].fn.name))
        if op == 'add': return x + y
        if op == 'sub': return x - y
        if op == 'mul': return x * y
        if op == 'and': return x & y
        if op == 'or': return x | y
        if op == 'xor': return x ^ y
        if op in ('shl', 'lshr', 'ashr'):
            if tb is not int:
                bad = z3.UGE(y, z3.BitVecVal(bits, bits)); mm = E.feasible(st, bad)
                if mm is not None:
                    st.vals = mm; E.assume(st, bad); raise Violation('ub', 'shift amount out of range')
            elif b >= bits: raise Violation('ub', 'shift amount out of range')
            return x << y if op == 'shl' else z3.LShR(x, y) if op == 'lshr' else x >> y
        if op in ('udiv', 'urem', 'sdiv', 'srem'):
            if tb is not int:
                bad = (y == z3.BitVecVal(0, bits)); mm = E.feasible(st, bad)
                if mm is not None:
                    st.vals = mm; E.assume(st, bad); raise Violation('ub', 'division by zero')
            elif b == 0: raise Violation('ub', 'division by zero')
            if op == 'udiv': return z3.UDiv(x, y)
            if op == 'urem': return z3.URem(x, y)
            if op == 'sdiv': return x / y
            return z3.SRem(x, y)
        raise Unsupported(op)

    def narrow(E, x, y, bits, op):
        def w(t):
            if z3.is_bv_value(t):
                v = t.as_signed_long(); return max(v.bit_length(), 1) + 1
            k = t.decl().kind()
            if k == z3.Z3_OP_ZERO_EXT: return t.arg(0).size() + 1
            if k == z3.Z3_OP_SIGN_EXT: return t.arg(0).size()
            if k == z3.Z3_OP_ITE: return max(w(t.arg(1)), w(t.arg(2)))
            if k in (z3.Z3_OP_BADD, z3.Z3_OP_BSUB) and t.num_args() == 2: return max(w(t.arg(0)), w(t.arg(1))) + 1
            if k == z3.Z3_OP_BMUL and t.num_args() == 2: return w(t.arg(0)) + w(t.arg(1))
            return t.size() + 1
        wx = w(x); wy = w(y)
        need = max(wx, wy) + 1 if op in ('add', 'sub') else wx + wy
        return need <= bits

    # ------------------------------------------------------------------ pure scalar functions: evaluated to an ite term, no forking
    def is_pure(E, f):
        r = E._pure.get(f.name)
        if r is not None: return r
        ok = not f.name.startswith('dfa_') and len(f.blocks) <= 80
        E._pure[f.name] = False    # recursion guard
        if ok:
            for b in f.blocks.values():
                for I in b:
                    op = I[0]
                    if op in ('phi', 'icmp', 'bin', 'zext', 'sext', 'trunc', 'br', 'cbr', 'switch', 'select', 'ret', 'unreachable'): continue
                    if op == 'mov' and I[2][0] in ('r', 'k'): continue
                    if op == 'call' and I[2][0] == '@':
                        g = E.mod.funcs.get(I[2][1:].strip('"'))
                        if g is not None and g is not f and E.is_pure(g): continue
                    ok = False; break
                if not ok: break
        if ok:
            # acyclic?
            color = {}
            def dfs(b):
                color[b] = 1
                t = f.blocks[b][-1]
                succ = [t[1]] if t[0] == 'br' else [t[2], t[3]] if t[0] == 'cbr' else ([t[3]] + [x[0] for x in t[4]]) if t[0] == 'switch' else []
                for s in succ:
                    c = color.get(s)
                    if c == 1: return False
                    if c is None and not dfs(s): return False
                color[b] = 2; return True
            ok = dfs(f.entry)
        E._pure[f.name] = ok; return ok
    def merge_vals(E, c, a, b, bits):
        if type(a) is int and type(b) is int and a == b: return a
        if type(a) is tuple or type(b) is tuple: raise Unsupported('pointer in pure function')
        if bits == 1: return z3.If(c, E.tobool(a), E.tobool(b))
        return z3.If(c, E.tobv(a, bits), E.tobv(b, bits))
    def eval_pure(E, st, f, args, rbits):
        budget = [4000]
        def blk(name, prev, regs):
            budget[0] -= 1
            if budget[0] < 0: raise Unsupported('pure function too large: ' + f.name)
            insts = f.blocks[name]; regs = dict(regs); ip = 0
            if insts[0][0] == 'phi':
                vals = []
                while insts[ip][0] == 'phi':
                    vals.append((insts[ip][1], E.ev(st, regs, insts[ip][2][prev]))); ip += 1
                for d, v in vals: regs[d] = v
            while True:
                I = insts[ip]; ip += 1; op = I[0]; E.stats['instr'] += 1
                if op == 'mov': regs[I[1]] = E.ev(st, regs, I[2])
                elif op == 'icmp': regs[I[1]] = E.icmp(st, I[2], I[3], E.ev(st, regs, I[4]), E.ev(st, regs, I[5]))
                elif op == 'bin': regs[I[1]] = E.binop(st, I[2], I[3], E.ev(st, regs, I[4]), E.ev(st, regs, I[5]), False)
                elif op in ('zext', 'sext', 'trunc'): regs[I[1]] = E.cast(op, E.ev(st, regs, I[3]), I[2], I[4])
                elif op == 'select':
                    c = E.ev(st, regs, I[2])
                    if type(c) is int: regs[I[1]] = E.ev(st, regs, I[3] if c else I[4])
                    else: regs[I[1]] = E.merge_vals(E.tobool(c), E.ev(st, regs, I[3]), E.ev(st, regs, I[4]), I[5])
                elif op == 'call':
                    g = E.mod.funcs[I[2][1:].strip('"')]
                    r = E.eval_pure(st, g, [E.ev(st, regs, a) for a in I[3]], I[4])
                    if I[1] is not None: regs[I[1]] = r
                elif op == 'br': return blk(I[1], name, regs)
                elif op == 'cbr':
                    c = E.ev(st, regs, I[1])
                    if type(c) is int: return blk(I[2] if c else I[3], name, regs)
                    return E.merge_vals(E.tobool(c), blk(I[2], name, regs), blk(I[3], name, regs), rbits)
                elif op == 'switch':
                    v = E.ev(st, regs, I[2])
                    if type(v) is int: return blk(I[5].get(v, I[3]), name, regs)
                    r = blk(I[3], name, regs)
                    for t, rs in reversed(I[4]):
                        r = E.merge_vals(ranges_cond(v, I[1], rs), blk(t, name, regs), r, rbits)
                    return r
                elif op == 'ret': return E.ev(st, regs, I[1]) if I[1] is not None else 0
                elif op == 'unreachable': return 0
                else: raise Unsupported('pure ' + op)
        return blk(f.entry, None, dict(zip(f.args, args)))
    def cast(E, op, v, sb, db):
        if type(v) is int:
            if op == 'sext' and v >> (sb - 1): v |= ((1 << db) - 1) ^ ((1 << sb) - 1)
            return v & ((1 << db) - 1)
        if type(v) is tuple: raise Unsupported('cast of pointer')
        if z3.is_bool(v): return z3.If(v, bvval((1 << db) - 1 if op == 'sext' else 1, db), bvval(0, db))
        if op == 'zext': return z3.ZeroExt(db - sb, v)
        if op == 'sext': return z3.SignExt(db - sb, v)
        r = z3.Extract(db - 1, 0, v)
        if db == 1: r = (r == bvval(1, 1))
        return r

    # ------------------------------------------------------------------ forks
    def fork_branch(E, st, alts):
        """alts: [(cond, target block)].  Returns continuation list for the driver."""
        out = []
        for idx, (c, t) in enumerate(alts):
            out.append((idx, c, ('goto', t)))
        return ('fork', st, out)
    def fork_values(E, st, dest, alts):
        return ('fork', st, [(i, c, ('set', dest, v)) for i, (c, v) in enumerate(alts)])
    def fork_concretize(E, st, term, bits):
        # enumerate feasible values of term under pc
        vals = []; excl = []
        while True:
            m = E.check(z3.And(excl) if excl else z3.BoolVal(True))
            if m is None: break
            v = m.eval(term, model_completion=True).as_long(); vals.append(v); excl.append(term != z3.BitVecVal(v, bits))
            if len(vals) > int(E.opts.get('max_concretize', 1024)): raise Unsupported('too many values for symbolic index')
        return ('fork', st, [(i, term == z3.BitVecVal(v, bits), ('subst', term, v)) for i, v in enumerate(sorted(vals))])

    def apply_alt(E, st, action):
        fr = st.frames[-1]
        if action[0] == 'goto':
            fr.prev = fr.blk; fr.blk = action[1]; fr.ip = 0
        elif action[0] == 'set':
            if action[1] is not None: fr.regs[action[1]] = action[2]
        elif action[0] == 'subst':
            # replace the symbolic term by its value in the frame's registers (identity match)
            t = action[1]; v = action[2]
            for k, r in list(fr.regs.items()):
                if r is t or (not isinstance(r, (int, tuple)) and r.eq(t)): fr.regs[k] = v
        elif action[0] == 'ret':
            if fr_dest := action[1]: fr.regs[fr_dest] = action[2]

    # ------------------------------------------------------------------ calls and intrinsics
    def call(E, st, fr, I):
        from . import intrinsics
        callee = I[2]; regs = fr.regs
        if callee[0] == '@': name = callee[1:].strip('"')
        else:
            fv = regs[callee]
            if type(fv) is not tuple or fv[0] != 'F':
                if type(fv) is tuple and fv[0] == 'P' and fv[1] is None: raise Violation('mem', 'call through NULL function pointer')
                raise Unsupported('indirect call through %r' % (fv,))
            name = fv[1]
        args = [E.ev(st, regs, a) for a in I[3]]
        f = E.mod.funcs.get(name)
        if f is not None and name not in intrinsics.OVERRIDE:
            E.funcs_entered.add(name)
            if any(type(a) is not int and type(a) is not tuple for a in args) and E.is_pure(f):
                E.stats['pure_calls'] = E.stats.get('pure_calls', 0) + 1
                r = E.eval_pure(st, f, args, I[4])
                if I[1] is not None: fr.regs[I[1]] = r
                return None
            if len(st.frames) > int(E.opts.get('max_stack', 4000)): raise Unsupported('call stack too deep')
            nf = Frame(); nf.fn = f; nf.blk = f.entry; nf.ip = 0; nf.regs = dict(zip(f.args, args)); nf.prev = None; nf.dest = I[1]; nf.allocas = []
            st.frames.append(nf); return None
        h = intrinsics.TABLE.get(name)
        if h is None:
            if name.startswith('llvm.lifetime') or name.startswith('llvm.dbg') or name.startswith('llvm.experimental.noalias'): return None
            for pre, hh in intrinsics.PREFIX:
                if name.startswith(pre): h = hh; break
            if h is None: raise Unsupported('call to undefined function ' + name)
        r = h(E, st, fr, I, args)
        if type(r) is tuple and r and r[0] == 'fork': return r
        if I[1] is not None: fr.regs[I[1]] = r
        return None

    # ------------------------------------------------------------------ path end / violations
    def end_path(E, st):
        E.stats['paths'] += 1
        for c in st.covers:
            E.covers[c] = E.covers.get(c, 0) + 1
            if c not in E.cover_models: E.cover_models[c] = E.render_inputs(st)
        if len(E.samples) < E.max_samples and (E.stats['paths'] % E.sample_every == 1 or E.stats['paths'] <= 2):
            E.samples.append({'inputs': E.render_inputs(st), 'covers': sorted(set(st.covers)), 'asserts_proved_on_path': st.nasserts,
                              'texts': E.render_notes(st), 'decisions': len(st.decisions)})
    def model_inputs(E, st):
        return [[name, bits, st.vals.get(var.get_id(), 0)] for name, bits, var in st.inputs]
    def render_inputs(E, st):
        vals = E.model_inputs(st); groups = {}; order = []
        for name, bits, v in vals:
            base = name.rsplit('#', 1)[0]
            if base not in groups: groups[base] = []; order.append(base)
            groups[base].append((bits, v))
        out = {}
        for b in order:
            g = groups[b]
            if len(g) > 1 or '#' in [n for n, _, _ in vals if n.startswith(b)][0]:
                if all(bits == 8 for bits, _ in g):
                    out[b] = ''.join(chr(v) if 32 <= v < 127 and v != 92 else '\\x%02x' % v for _, v in g)
                else: out[b] = [v for _, v in g]
            else: out[b] = g[0][1]
        return out
    def render_notes(E, st):
        out = {}
        for nt in st.notes:
            if nt[0] == '$val':
                v = nt[2]
                if type(v) is not int and type(v) is not tuple:
                    pairs = [(domain._varast[x], z3.BitVecVal(st.vals.get(x, 0), domain._varast[x].size())) for x in domain.vars_of(v)]
                    v = z3.simplify(z3.substitute(v, pairs)) if pairs else z3.simplify(v)
                    v = v.as_long() if z3.is_bv_value(v) else str(v)
                out[nt[1]] = v if type(v) is int else str(v); continue
            _, label, p, n, es = nt; s = []
            o = st.mem.get(p[1]) if p[1] is not None else None
            if o is None or o.dead: out[label] = '<gone>'; continue
            for k in range(n):
                try:
                    v = E.load_raw(st, o, p[2] + k * es, es)
                except Exception: v = None
                if v is None: s.append('?'); continue
                if type(v) is not int:
                    pairs = [(domain._varast[x], z3.BitVecVal(st.vals.get(x, 0), domain._varast[x].size())) for x in domain.vars_of(v)]
                    v = z3.simplify(z3.substitute(v, pairs)) if pairs else z3.simplify(v)
                    v = v.as_long() if z3.is_bv_value(v) else None
                s.append('?' if v is None else chr(v) if 32 <= v < 127 else '\\x%02x' % v)
            out[label] = ''.join(s)
        return out
    def load_raw(E, st, o, off, n):
        if off < 0 or off + n > o.size: return None
        cells = o.cells[off:off + n]
        if all(type(b) is int for b in cells): return sum(b << (8 * i) for i, b in enumerate(cells))
        b0 = cells[0]
        if type(b0) is tuple and b0[0] == 's' and b0[2] == 0 and b0[3] == n: return b0[1]
        if n == 1 and type(b0) is not tuple: return b0
        return None
    def report(E, st, kind, msg):
        stack = [f.fn.name for f in st.frames][-8:]
        rec = {'kind': kind, 'msg': msg, 'stack': stack, 'inputs': E.model_inputs(st), 'rendered': E.render_inputs(st), 'texts': E.render_notes(st)}
        E.violations.append(rec)

class DictModel:
    def __init__(s, vals): s.vals = vals
    def eval(s, t, model_completion=True):
        pairs = [(domain._varast[v], z3.BitVecVal(s.vals.get(domain._varast[v].decl().name(), 0), domain._varast[v].size())) for v in domain.vars_of(t)]
        return z3.simplify(z3.substitute(t, pairs)) if pairs else z3.simplify(t)

class SymIndex(Exception):
    def __init__(s, term, bits): s.term = term; s.bits = bits
