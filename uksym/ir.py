# LLVM-14 textual IR (typed pointers) loader for the uksym symbolic executor.
# Only the instruction subset produced by `clang-14 -O1 -Xclang -disable-llvm-passes` + `opt -passes=function(sroa)`
# for C89/C99 code is supported; anything else raises, so an unknown construct can never be silently mis-executed.
import re

class Ty: pass
class IntT(Ty):
    __slots__ = ('bits',)
    def __init__(s, bits): s.bits = bits
class VoidT(Ty): pass
class PtrT(Ty):
    __slots__ = ('to',)
    def __init__(s, to): s.to = to
class ArrT(Ty):
    __slots__ = ('n', 'el')
    def __init__(s, n, el): s.n = n; s.el = el
class StructT(Ty):
    __slots__ = ('name',)
    def __init__(s, name): s.name = name
class LitStructT(Ty):
    __slots__ = ('els', 'packed')
    def __init__(s, els, packed=False): s.els = els; s.packed = packed
class FnT(Ty):
    __slots__ = ('ret', 'args', 'va')
    def __init__(s, ret, args, va=False): s.ret = ret; s.args = args; s.va = va

TOK = re.compile(r'\s*(%"[^"]+"|%[\w.$-]+|@"[^"]+"|@[\w.$-]+|\[|\]|\(|\)|\{|\}|<|>|\*|,|x\b|\.\.\.|c"(?:[^"])*"|[A-Za-z_][\w.]*|-?\d+|=|!\w*|"[^"]*")')
def toks(s):
    out = []; i = 0; n = len(s)
    while i < n:
        m = TOK.match(s, i)
        if not m:
            if s[i:].strip() == '': break
            raise Exception('tok fail: ' + s[i:i + 60])
        out.append(m.group(1)); i = m.end()
    return out

ATTRS = {'noundef', 'nonnull', 'nocapture', 'readonly', 'readnone', 'writeonly', 'noalias', 'signext', 'zeroext', 'immarg',
         'inbounds', 'nuw', 'nsw', 'exact', 'tail', 'musttail', 'notail', 'fastcc', 'dso_local', 'internal',
         'local_unnamed_addr', 'unnamed_addr', 'returned', 'nofree', 'nosync', 'volatile', 'private', 'hidden', 'noreturn',
         'nounwind', 'willreturn', 'external', 'common', 'linkonce_odr', 'weak'}

class Module:
    def __init__(s):
        s.structs = {}; s.funcs = {}; s.gdefs = {}; s.decls = set(); s._lay = {}
    def sizeof(s, t):
        if isinstance(t, IntT): return max(1, (t.bits + 7) // 8)
        if isinstance(t, PtrT): return 8
        if isinstance(t, ArrT): return t.n * s.sizeof(t.el)
        if isinstance(t, StructT): return s.layout(t.name)[0]
        if isinstance(t, LitStructT): return s.lit_layout(t)[0]
        raise Exception('sizeof %r' % t)
    def alignof(s, t):
        if isinstance(t, IntT): return max(1, (t.bits + 7) // 8)
        if isinstance(t, PtrT): return 8
        if isinstance(t, ArrT): return s.alignof(t.el)
        if isinstance(t, StructT): return s.layout(t.name)[2]
        if isinstance(t, LitStructT): return s.lit_layout(t)[2]
        raise Exception('alignof %r' % t)
    def _lay_of(s, els, packed=False):
        off = 0; offs = []; al = 1
        for t in els:
            a = 1 if packed else s.alignof(t); al = max(al, a); off = (off + a - 1) // a * a; offs.append(off); off += s.sizeof(t)
        off = (off + al - 1) // al * al
        return (off, offs, al)
    def layout(s, name):
        if name not in s._lay: s._lay[name] = s._lay_of(s.structs[name])
        return s._lay[name]
    def lit_layout(s, t): return s._lay_of(t.els, t.packed)

class P:
    def __init__(s, t, mod): s.t = t; s.i = 0; s.mod = mod
    def peek(s): return s.t[s.i] if s.i < len(s.t) else None
    def next(s): x = s.t[s.i]; s.i += 1; return x
    def eat(s, x):
        if s.i < len(s.t) and s.t[s.i] == x: s.i += 1; return True
        return False
    def expect(s, x):
        y = s.next()
        if y != x: raise Exception('expected %s got %s at %s' % (x, y, s.t[max(0, s.i - 6):s.i + 4]))
    def skip_attrs(s):
        while s.i < len(s.t):
            t = s.t[s.i]
            if t in ATTRS: s.i += 1
            elif t in ('align', 'dereferenceable', 'dereferenceable_or_null') :
                s.i += 1
                if s.eat('('): s.next(); s.expect(')')
                else: s.next()
            else: break
    def type(s):
        t = s.next()
        if re.fullmatch(r'i\d+', t): ty = IntT(int(t[1:]))
        elif t == 'void': ty = VoidT()
        elif t.startswith('%'):
            ty = StructT(t[1:])
        elif t == '[':
            n = int(s.next()); s.expect('x'); el = s.type(); s.expect(']'); ty = ArrT(n, el)
        elif t == '{' or (t == '<' and s.peek() == '{'):
            packed = t == '<'
            if packed: s.next()
            els = []
            while not s.eat('}'):
                els.append(s.type()); s.eat(',')
            if packed: s.expect('>')
            ty = LitStructT(els, packed)
        else: raise Exception('type? %s at %s' % (t, s.t[max(0, s.i - 6):s.i + 4]))
        while True:
            if s.eat('*'): ty = PtrT(ty)
            elif s.peek() == '(':
                s.next(); args = []; va = False
                while not s.eat(')'):
                    if s.eat('...'): va = True
                    else:
                        args.append(s.type()); s.skip_attrs()
                    s.eat(',')
                ty = FnT(ty, args, va)
            else: break
        return ty

    # ---- operands.  Forms: ('r',name) ('k',value) ('g',name) ('gep',base,steps,const) ('p2i',op)
    def operand(s, ty):
        s.skip_attrs()
        t = s.next()
        if t[0] == '%': return ('r', t)
        if t[0] == '@': return ('g', t[1:].strip('"'))
        if t == 'null': return ('k', ('P', None, 0))
        if t in ('undef', 'poison'): return ('k', ('P', None, 0) if isinstance(ty, PtrT) else 0)
        if t == 'zeroinitializer': return ('k', 0)
        if t == 'true': return ('k', 1)
        if t == 'false': return ('k', 0)
        if re.fullmatch(r'-?\d+', t): return ('k', int(t) & ((1 << ty.bits) - 1))
        if t == 'getelementptr': return s.gep()
        if t == 'bitcast':
            s.expect('('); sty = s.type(); v = s.operand(sty); s.expect('to'); s.type(); s.expect(')'); return v
        if t == 'ptrtoint':
            s.expect('('); sty = s.type(); v = s.operand(sty); s.expect('to'); s.type(); s.expect(')'); return ('p2i', v)
        if t == 'inttoptr':
            s.expect('('); sty = s.type(); v = s.operand(sty); s.expect('to'); s.type(); s.expect(')')
            if v[0] == 'k' and isinstance(v[1], int): return ('k', ('P', None, v[1]))
            raise Exception('inttoptr const expr of non-constant')
        raise Exception('operand %s at %s' % (t, s.t[max(0, s.i - 6):s.i + 4]))
    def gep(s):
        s.skip_attrs()
        paren = s.eat('(')
        bt = s.type(); s.expect(','); pty = s.type(); base = s.operand(pty); idx = []
        while s.eat(','):
            s.skip_attrs(); it = s.type(); idx.append((it, s.operand(it)))
        if paren: s.expect(')')
        mod = s.mod; steps = []; cur = bt
        it, i0 = idx[0]; steps.append((mod.sizeof(bt), i0, it.bits)); const = 0
        for it, ix in idx[1:]:
            if isinstance(cur, StructT):
                k = ix[1]; const += mod.layout(cur.name)[1][k]; cur = mod.structs[cur.name][k]
            elif isinstance(cur, LitStructT):
                k = ix[1]; const += mod.lit_layout(cur)[1][k]; cur = cur.els[k]
            else:
                cur = cur.el; steps.append((mod.sizeof(cur), ix, it.bits))
        # fold constant steps
        st2 = []
        for scale, ix, bits in steps:
            if ix[0] == 'k':
                v = ix[1]
                if v >= 1 << (bits - 1): v -= 1 << bits
                const += scale * v
            else: st2.append((scale, ix, bits))
        return ('gep', base, tuple(st2), const)

BINOPS = {'add', 'sub', 'mul', 'and', 'or', 'xor', 'shl', 'lshr', 'ashr', 'sdiv', 'udiv', 'srem', 'urem'}

def parse_inst(l, mod):
    ts = toks(l); p = P(ts, mod); dest = None
    if len(ts) > 1 and ts[1] == '=': dest = p.next(); p.next()
    p.skip_attrs()
    op = p.next()
    if op == 'phi':
        ty = p.type(); inc = {}
        while p.eat('['):
            v = p.operand(ty); p.expect(','); pred = p.next()[1:]; p.expect(']'); p.eat(','); inc[pred] = v
        return ('phi', dest, inc)
    if op == 'alloca':
        ty = p.type(); n = 1
        if p.eat(','):
            if p.peek() != 'align':
                ity = p.type(); nv = p.operand(ity)
                if nv[0] != 'k': raise Exception('dynamic alloca')
                n = nv[1]
        return ('alloca', dest, mod.sizeof(ty) * n)
    if op == 'load':
        p.skip_attrs(); ty = p.type(); p.expect(','); pty = p.type(); return ('load', dest, ty, p.operand(pty), mod.sizeof(ty))
    if op == 'store':
        p.skip_attrs(); ty = p.type(); v = p.operand(ty); p.expect(','); pty = p.type(); return ('store', ty, v, p.operand(pty), mod.sizeof(ty))
    if op == 'getelementptr': return ('mov', dest, p.gep())
    if op in ('bitcast', 'freeze'):
        sty = p.type(); v = p.operand(sty); return ('mov', dest, v)
    if op in ('zext', 'sext', 'trunc'):
        sty = p.type(); v = p.operand(sty); p.expect('to'); dty = p.type(); return (op, dest, sty.bits, v, dty.bits)
    if op == 'ptrtoint':
        sty = p.type(); v = p.operand(sty); p.expect('to'); dty = p.type(); return ('mov', dest, ('p2i', v))
    if op == 'inttoptr':
        sty = p.type(); v = p.operand(sty); p.expect('to'); dty = p.type(); return ('inttoptr', dest, v)
    if op == 'icmp':
        pred = p.next(); ty = p.type(); a = p.operand(ty); p.expect(','); b = p.operand(ty)
        return ('icmp', dest, pred, ty.bits if isinstance(ty, IntT) else 64, a, b)
    if op in BINOPS:
        flags = set()
        while p.peek() in ('nsw', 'nuw', 'exact'): flags.add(p.next())
        ty = p.type(); a = p.operand(ty); p.expect(','); b = p.operand(ty); return ('bin', dest, op, ty.bits, a, b, 'nsw' in flags)
    if op == 'select':
        ct = p.type(); c = p.operand(ct); p.expect(','); ty = p.type(); a = p.operand(ty); p.expect(','); p.type(); b = p.operand(ty)
        return ('select', dest, c, a, b, ty.bits if isinstance(ty, IntT) else 0)
    if op == 'call':
        p.skip_attrs(); rty = p.type(); callee = p.next(); p.expect('('); a = []
        while not p.eat(')'):
            ty = p.type(); a.append(p.operand(ty)); p.eat(',')
        return ('call', dest, callee, tuple(a), rty.bits if isinstance(rty, IntT) else 0)
    if op == 'br':
        if p.eat('label'): return ('br', p.next()[1:])
        ty = p.type(); c = p.operand(ty); p.expect(','); p.expect('label'); t1 = p.next()[1:]; p.expect(','); p.expect('label')
        return ('cbr', c, t1, p.next()[1:])
    if op == 'switch':
        ty = p.type(); v = p.operand(ty); p.expect(','); p.expect('label'); d = p.next()[1:]; p.expect('['); groups = {}
        while not p.eat(']'):
            t2 = p.type(); cv = p.operand(t2); p.expect(','); p.expect('label'); groups.setdefault(p.next()[1:], []).append(cv[1])
        byval = {}
        for t, vs in groups.items():
            for x in vs: byval[x] = t
        # ranges per target, for compact symbolic conditions
        gr = []
        for t, vs in groups.items():
            vs = sorted(vs); rs = []; lo = hi = vs[0]
            for x in vs[1:]:
                if x == hi + 1: hi = x
                else: rs.append((lo, hi)); lo = hi = x
            rs.append((lo, hi)); gr.append((t, tuple(rs)))
        return ('switch', ty.bits, v, d, tuple(gr), byval)
    if op == 'ret':
        ty = p.type()
        return ('ret', None if isinstance(ty, VoidT) else p.operand(ty))
    if op == 'unreachable': return ('unreachable',)
    raise Exception('unsupported instruction: ' + l)

class Func:
    __slots__ = ('name', 'args', 'blocks', 'entry', 'src')

def load_module(path, mod=None):
    mod = mod or Module()
    text = open(path).read()
    for m in re.finditer(r'^%([\w.]+) = type \{(.*)\}$', text, re.M):
        p = P(toks(m.group(2)), mod); el = []
        while p.peek() is not None: el.append(p.type()); p.eat(',')
        mod.structs[m.group(1)] = el
    for m in re.finditer(r'^%([\w.]+) = type opaque$', text, re.M): mod.structs[m.group(1)] = []
    for m in re.finditer(r'^@("[^"]+"|[\w.$-]+) = (.*)$', text, re.M):
        mod.gdefs[m.group(1).strip('"')] = m.group(2)
    for m in re.finditer(r'^declare .*?@([\w.$-]+)\(', text, re.M): mod.decls.add(m.group(1))
    for hdr, body in re.findall(r'^define (.*?)\{\n(.*?)^\}', text, re.M | re.S):
        hdr = re.sub(r'#\d+', '', hdr).split(' !')[0]
        p = P(toks(hdr), mod); p.skip_attrs(); p.type(); name = p.next()[1:].strip('"'); p.expect('('); args = []
        while not p.eat(')'):
            if p.eat('...'): continue
            p.type(); p.skip_attrs(); args.append(p.next()); p.eat(',')
        blocks = {}; order = []
        cur = None; acc = None; first = True
        for line in body.split('\n'):
            line = line.split(', !')[0].rstrip(); line = re.sub(r' #\d+$', '', line)
            s = line.strip()
            if not s or s.startswith(';'): continue
            mm_ = re.match(r'^([\w.$-]+):', line)
            if mm_:
                cur = mm_.group(1); blocks[cur] = []; order.append(cur); continue
            if cur is None:
                # implicit entry label: numbered after the unnamed args
                cur = '$entry'; blocks[cur] = []; order.append(cur)
            if acc is not None:
                acc += ' ' + s
                if s.startswith(']'): blocks[cur].append(acc); acc = None
                continue
            if s.startswith('switch') and not s.endswith(']'): acc = s; continue
            blocks[cur].append(s)
        f = Func(); f.name = name; f.args = args; f.entry = order[0]; f.src = path
        f.blocks = {}
        for k, v in blocks.items():
            f.blocks[k] = [parse_inst(l, mod) for l in v]
        # predecessor name of the implicit entry block in phis is the numeric label; rename
        mod.funcs[name] = f
    # the implicit entry block is referred to in phi nodes by its number (= number of unnamed values before it)
    for f in mod.funcs.values():
        if f.entry == '$entry':
            used = set()
            for b in f.blocks.values():
                for I in b:
                    if I[0] == 'phi': used.update(I[2].keys())
            cand = [u for u in used if u not in f.blocks]
            if len(cand) > 1: raise Exception('ambiguous entry label in ' + f.name)
            if cand:
                f.blocks[cand[0]] = f.blocks.pop('$entry'); f.entry = cand[0]
    return mod
