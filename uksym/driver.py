# DFS driver, prefix-split parallel exploration and result aggregation for uksym.
import sys, os, time, json, traceback, multiprocessing as mp
import z3
from .ir import load_module
from .engine import Engine, State, Frame, Violation, PathEnd, Inconclusive, Unsupported, new_sid
from . import intrinsics

def make_root(E):
    st = State(); st.mem = {}; st.frames = []; st.sid = new_sid(); st.vals = {}; st.dom = {}; st.ent = frozenset(); st.inputs = []; st.live = {}
    st.libc_calls = 0; st.covers = []; st.decisions = []; st.nasserts = 0; st.notes = []; st.nfail = 0; st.assumed = False
    st.nobj = 0
    E.init_globals(st)
    oid = E.new_obj(st, 4, 'g', '$errno'); E.globj['$errno'] = oid
    f = E.mod.funcs[E.opts.get('entry', 'main')]
    fr = Frame(); fr.fn = f; fr.blk = f.entry; fr.ip = 0; fr.regs = {a: 0 for a in f.args}; fr.prev = None; fr.dest = None; fr.allocas = []
    st.frames.append(fr); E.funcs_entered.add(f.name)
    return st

class Stop(Exception): pass

def explore(E, prefix, split_depth=None):
    """Explore the subtree below the decision prefix.  With split_depth, states reaching that many decisions are
    returned as new prefixes instead of being explored (used by the master to cut work units)."""
    root = make_root(E); E.pop_to(0)
    E.replay = list(prefix); E.replaying = len(prefix) > 0
    stack = [(root, None, None, 0)]; out_prefixes = []
    while stack:
        st, cond, action, d = stack.pop()
        E.pop_to(d)
        if cond is not None: E.assume(st, cond)
        if action is not None: E.apply_alt(st, action)
        E.stats['states'] += 1
        E.replaying = len(st.decisions) < len(E.replay)
        if E.deadline and time.time() > E.deadline: raise Stop('time budget exhausted')
        try:
            r = E.run(st)
        except PathEnd:
            if st.assumed: E.stats['assumed_away'] += 1
            else: E.end_path(st)
            continue
        except Violation as v:
            if not E.replaying:
                E.report(st, v.kind, v.msg)
                if len(E.violations) >= E.max_violations: raise Stop('violation limit')
            E.stats['paths'] += 1
            continue
        if r is None: continue
        _, st, alts = r
        k = len(st.decisions)
        if k < len(E.replay):
            want = E.replay[k]; alts = [a for a in alts if a[0] == want]
            if not alts: raise Unsupported('replay divergence')
        feas = []
        for idx, c, action in alts:
            m = E.feasible(st, c)
            if m is not None: feas.append((idx, c, action, m))
            elif k < len(E.replay): raise Unsupported('replayed decision infeasible')
        if len(feas) > 1: E.stats['forks'] += len(feas) - 1
        if not feas: raise Unsupported('no feasible alternative at fork (pc unsat?)')
        depth = E.depth; kids = []
        only = len(feas) == 1 and k >= len(E.replay)
        for j, (idx, c, action, m) in enumerate(feas):
            s2 = st if j == len(feas) - 1 else st.clone()
            s2.vals = m; s2.decisions = s2.decisions + [idx]
            kids.append((s2, None if only else c, action, depth))    # a sole feasible alternative is implied by the pc
        if split_depth is not None and len(kids[0][0].decisions) >= split_depth and len(kids[0][0].decisions) > len(E.replay):
            for s2, c, action, dd in kids: out_prefixes.append(list(s2.decisions))
            continue
        for kid in reversed(kids): stack.append(kid)
    return out_prefixes

_G = {}
def _worker_init(modpath, libg, opts):
    _G['mod'] = load_module(modpath); _G['libg'] = libg; _G['opts'] = opts

def _result(E, status, err=None):
    return {'status': status, 'error': err, 'stats': E.stats, 'funcs': sorted(E.funcs_entered), 'covers': E.covers,
            'cover_models': E.cover_models, 'violations': E.violations, 'samples': E.samples, 'ub_notes': sorted(E.ub_notes),
            'assert_counts': E.assert_counts}

def _run_unit(args):
    prefix, split = args
    E = Engine(_G['mod'], _G['libg'], _G['opts'])
    try:
        pf = explore(E, prefix, split)
        r = _result(E, 'ok'); r['prefixes'] = pf; return r
    except Stop as s:
        r = _result(E, 'stopped', str(s)); r['prefixes'] = []; return r
    except (Inconclusive, Unsupported) as e:
        r = _result(E, 'error', '%s: %s' % (type(e).__name__, e)); r['prefixes'] = []; return r
    except Exception as e:
        r = _result(E, 'error', 'internal: ' + traceback.format_exc()[-1500:]); r['prefixes'] = []; return r

def merge_results(rs):
    tot = {'status': 'ok', 'errors': [], 'stats': {}, 'funcs': set(), 'covers': {}, 'cover_models': {}, 'violations': [],
           'samples': [], 'ub_notes': set(), 'assert_counts': {}}
    for r in rs:
        if r['status'] != 'ok':
            if r['status'] == 'stopped' and r['error'] == 'violation limit': tot['stopped_early'] = tot.get('stopped_early', 0) + 1
            else: tot['status'] = 'error'; tot['errors'].append(r['error'])
        for k, v in r['stats'].items(): tot['stats'][k] = tot['stats'].get(k, 0) + v
        tot['funcs'].update(r['funcs']); tot['ub_notes'].update(r['ub_notes'])
        for k, v in r['covers'].items(): tot['covers'][k] = tot['covers'].get(k, 0) + v
        for k, v in r['cover_models'].items(): tot['cover_models'].setdefault(k, v)
        for k, v in r['assert_counts'].items(): tot['assert_counts'][k] = tot['assert_counts'].get(k, 0) + v
        tot['violations'].extend(r['violations']); tot['samples'].extend(r['samples'])
    tot['funcs'] = sorted(tot['funcs']); tot['ub_notes'] = sorted(tot['ub_notes'])
    return tot

def run_parallel(modpath, libg, opts, jobs=16, target_units=256, max_split_rounds=12):
    """master: cut the execution tree into prefixes, workers: explore each subtree. Returns merged result."""
    t0 = time.time()
    ctx = mp.get_context('fork')
    results = []
    _worker_init(modpath, libg, opts)      # parse once in the master; workers inherit it through fork
    with ctx.Pool(jobs) as pool:
        frontier = [[]]; depth = 0
        # iterative deepening of the split frontier, itself in parallel
        while frontier and len(frontier) < target_units and depth < max_split_rounds:
            depth += 1
            nxt = []
            for r in pool.imap_unordered(_run_unit, [(p, len(p) + 1) for p in frontier], chunksize=1):
                nxt.extend(r.pop('prefixes')); results.append(r)
            frontier = nxt
            if any(r['status'] == 'error' for r in results): frontier = []; break
        frontier.sort()
        for r in pool.imap_unordered(_run_unit, [(p, None) for p in frontier], chunksize=1):
            r.pop('prefixes'); results.append(r)
    tot = merge_results(results); tot['wall_s'] = time.time() - t0; tot['units'] = len(results)
    return tot

def run_single(modpath, libg, opts, prefix=()):
    _worker_init(modpath, libg, opts)
    t0 = time.time(); r = _run_unit((list(prefix), None)); r.pop('prefixes')
    tot = merge_results([r]); tot['wall_s'] = time.time() - t0; tot['units'] = 1
    return tot

if __name__ == '__main__':
    import argparse
    ap = argparse.ArgumentParser(); ap.add_argument('module'); ap.add_argument('-j', type=int, default=1)
    ap.add_argument('--libg', default=''); ap.add_argument('--json', default=None); ap.add_argument('--timeout', type=float, default=0)
    a = ap.parse_args()
    opts = {}
    if a.timeout: opts['deadline'] = time.time() + a.timeout
    libg = [g for g in a.libg.split(',') if g]
    r = run_single(a.module, libg, opts) if a.j <= 1 else run_parallel(a.module, libg, opts, a.j)
    if a.json: json.dump(r, open(a.json, 'w'), indent=1, default=str)
    print('status', r['status'], r.get('errors'))
    print('stats', r['stats'], 'wall %.1f' % r['wall_s'], 'units', r['units'])
    print('covers', r['covers'])
    print('ub_notes', r['ub_notes'])
    for v in r['violations'][:10]: print('VIOL', v['kind'], v['msg'], v['stack'], v['rendered'])
    for s in r['samples'][:5]: print('sample', s)
