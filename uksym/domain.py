# Finite-domain layer in front of z3: exact truth tables of predicates over ONE symbolic 8-bit variable.
# A predicate whose free variables are a single 8-bit input is evaluated for all 256 values at once (numpy), the
# resulting 256-bit mask is cached by AST id (z3 hash-conses terms, so the same test on the same byte on another
# path is a dictionary hit).  Used only to decide path feasibility; sampled (or, with UK_CROSSCHECK=1, every)
# decision is re-decided by z3 and must agree.
import numpy as np
import z3

ALL = (1 << 256) - 1
_vars = {}      # ast id -> (ast, frozenset of var ids)
_tt = {}        # ast id -> (ast, None | (var_id, mask))
_varast = {}    # var id -> ast
_IDX = np.arange(256, dtype=np.uint64)

class Unsup(Exception): pass

def vars_of(t):
    i = t.get_id(); r = _vars.get(i)
    if r is not None: return r[1]
    if z3.is_const(t):
        if t.decl().kind() == z3.Z3_OP_UNINTERPRETED:
            s = frozenset([i]); _varast[i] = t
        else: s = frozenset()
    else:
        s = frozenset()
        for c in t.children(): s = s | vars_of(c)
    _vars[i] = (t, s); return s

def _mask(w): return np.uint64((1 << w) - 1) if w < 64 else np.uint64(0xFFFFFFFFFFFFFFFF)
def _signed(a, w):
    # to int64 with sign
    if w == 64: return a.astype(np.int64)
    sb = np.uint64(1 << (w - 1))
    return ((a ^ sb).astype(np.int64)) - np.int64(1 << (w - 1))

def _ev(t, memo):
    i = t.get_id(); r = memo.get(i)
    if r is not None: return r
    k = t.decl().kind(); ch = t.children()
    if z3.is_bool(t):
        if k == z3.Z3_OP_TRUE: r = np.ones(256, dtype=bool)
        elif k == z3.Z3_OP_FALSE: r = np.zeros(256, dtype=bool)
        elif k == z3.Z3_OP_NOT: r = ~_ev(ch[0], memo)
        elif k == z3.Z3_OP_AND:
            r = np.ones(256, dtype=bool)
            for c in ch: r = r & _ev(c, memo)
        elif k == z3.Z3_OP_OR:
            r = np.zeros(256, dtype=bool)
            for c in ch: r = r | _ev(c, memo)
        elif k == z3.Z3_OP_XOR: r = _ev(ch[0], memo) ^ _ev(ch[1], memo)
        elif k == z3.Z3_OP_IMPLIES: r = (~_ev(ch[0], memo)) | _ev(ch[1], memo)
        elif k == z3.Z3_OP_ITE: r = np.where(_ev(ch[0], memo), _ev(ch[1], memo), _ev(ch[2], memo))
        elif k in (z3.Z3_OP_EQ, z3.Z3_OP_DISTINCT):
            a = _ev(ch[0], memo); b = _ev(ch[1], memo)
            if len(ch) != 2: raise Unsup()
            r = (a == b) if k == z3.Z3_OP_EQ else (a != b)
        elif k in (z3.Z3_OP_ULEQ, z3.Z3_OP_ULT, z3.Z3_OP_UGEQ, z3.Z3_OP_UGT):
            a = _ev(ch[0], memo); b = _ev(ch[1], memo)
            r = a <= b if k == z3.Z3_OP_ULEQ else a < b if k == z3.Z3_OP_ULT else a >= b if k == z3.Z3_OP_UGEQ else a > b
        elif k in (z3.Z3_OP_SLEQ, z3.Z3_OP_SLT, z3.Z3_OP_SGEQ, z3.Z3_OP_SGT):
            w = ch[0].size(); a = _signed(_ev(ch[0], memo), w); b = _signed(_ev(ch[1], memo), w)
            r = a <= b if k == z3.Z3_OP_SLEQ else a < b if k == z3.Z3_OP_SLT else a >= b if k == z3.Z3_OP_SGEQ else a > b
        else: raise Unsup()
        r = np.broadcast_to(r, (256,)) if r.shape != (256,) else r
    else:
        if not z3.is_bv(t): raise Unsup()
        w = t.size()
        if w > 64: raise Unsup()
        m = _mask(w)
        if k == z3.Z3_OP_BNUM: r = np.full(256, t.as_long(), dtype=np.uint64)
        elif k == z3.Z3_OP_UNINTERPRETED:
            if w != 8: raise Unsup()
            r = _IDX.copy()
        elif k == z3.Z3_OP_ZERO_EXT: r = _ev(ch[0], memo)
        elif k == z3.Z3_OP_SIGN_EXT:
            r = _signed(_ev(ch[0], memo), ch[0].size()).astype(np.uint64) & m
        elif k == z3.Z3_OP_EXTRACT:
            hi, lo = t.params(); r = (_ev(ch[0], memo) >> np.uint64(lo)) & _mask(hi - lo + 1)
        elif k == z3.Z3_OP_CONCAT:
            r = np.zeros(256, dtype=np.uint64)
            for c in ch: r = ((r << np.uint64(c.size())) | _ev(c, memo)) & m
        elif k == z3.Z3_OP_BADD:
            r = np.zeros(256, dtype=np.uint64)
            for c in ch: r = (r + _ev(c, memo)) & m
        elif k == z3.Z3_OP_BSUB:
            r = _ev(ch[0], memo)
            for c in ch[1:]: r = (r - _ev(c, memo)) & m
        elif k == z3.Z3_OP_BMUL:
            r = np.ones(256, dtype=np.uint64)
            for c in ch: r = (r * _ev(c, memo)) & m
        elif k == z3.Z3_OP_BAND:
            r = _ev(ch[0], memo)
            for c in ch[1:]: r = r & _ev(c, memo)
        elif k == z3.Z3_OP_BOR:
            r = _ev(ch[0], memo)
            for c in ch[1:]: r = r | _ev(c, memo)
        elif k == z3.Z3_OP_BXOR:
            r = _ev(ch[0], memo)
            for c in ch[1:]: r = r ^ _ev(c, memo)
        elif k == z3.Z3_OP_BNOT: r = (~_ev(ch[0], memo)) & m
        elif k == z3.Z3_OP_BNEG: r = (np.uint64(0) - _ev(ch[0], memo)) & m
        elif k == z3.Z3_OP_ITE: r = np.where(_ev(ch[0], memo), _ev(ch[1], memo), _ev(ch[2], memo))
        elif k in (z3.Z3_OP_BSHL, z3.Z3_OP_BLSHR):
            a = _ev(ch[0], memo); b = _ev(ch[1], memo)
            big = b >= np.uint64(w); bs = np.where(big, np.uint64(0), b)
            r = np.where(big, np.uint64(0), ((a << bs) & m) if k == z3.Z3_OP_BSHL else (a >> bs))
        elif k in (z3.Z3_OP_BUDIV, z3.Z3_OP_BUDIV_I, z3.Z3_OP_BUREM, z3.Z3_OP_BUREM_I):
            a = _ev(ch[0], memo); b = _ev(ch[1], memo)
            if (b == 0).any(): raise Unsup()
            r = (a // b) if k in (z3.Z3_OP_BUDIV, z3.Z3_OP_BUDIV_I) else (a % b)
        else: raise Unsup()
    memo[i] = r; return r

def truth_table(t):
    """(var_id, mask) if t is a predicate over exactly one 8-bit variable and fully supported, else None"""
    i = t.get_id(); r = _tt.get(i)
    if r is not None: return r[1]
    res = None
    vs = vars_of(t)
    if len(vs) == 1:
        (v,) = vs
        if _varast[v].size() == 8 if z3.is_bv(_varast[v]) else False:
            try:
                arr = _ev(t, {})
                bits = np.packbits(arr.astype(np.uint8), bitorder='little').tobytes()
                res = (v, int.from_bytes(bits, 'little'))
            except Unsup:
                res = None
    if len(_tt) > 400000: _tt.clear()
    _tt[i] = (t, res); return res

def lowest(mask):
    return (mask & -mask).bit_length() - 1
