# Built-in functions of the uksym executor: harness intrinsics (uk_*), the C allocator, memcpy/memset and a few libc leaves.
import z3
from .engine import Violation, PathEnd, Unsupported, SymIndex, NULL
from .ir import PtrT
from . import domain

OVERRIDE = set()   # names that are intrinsics even if the module defines them

def conc(E, v, bits=64):
    if type(v) is int: return v
    if type(v) is tuple: raise Unsupported('pointer where integer expected')
    raise SymIndex(v, v.size())

def new_sym(E, st, name, bits):
    k = sum(1 for n, _, _ in st.inputs if n.split('#')[0] == name.split('#')[0]) if '#' not in name else 0
    var = z3.BitVec('%s@%d' % (name, len(st.inputs)), bits)
    st.inputs.append((name, bits, var)); return var

def uk_sym_bytes(E, st, fr, I, a):
    p = a[0]; n = conc(E, a[1]); name = E.cstring(st, a[2]) or 'b'
    E.access(st, p, n, True); o = E.wobj(st, p[1])
    for i in range(n): o.cells[p[2] + i] = new_sym(E, st, '%s#%d' % (name, i), 8)
def uk_sym_words(E, st, fr, I, a):
    p = a[0]; n = conc(E, a[1]); name = E.cstring(st, a[2]) or 'w'
    for i in range(n):
        E.store(st, ('P', p[1], p[2] + 4 * i), 4, new_sym(E, st, '%s#%d' % (name, i), 32))
def uk_sym_int(E, st, fr, I, a): return new_sym(E, st, E.cstring(st, a[0]) or 'i', 32)
def uk_sym_long(E, st, fr, I, a): return new_sym(E, st, E.cstring(st, a[0]) or 'l', 64)
def uk_choice(E, st, fr, I, a):
    # a skeleton decision: fresh 8-bit value in [0,n), concretised at once (one successor state per value)
    n = conc(E, a[0])
    if n <= 1: return 0
    if n > 255: raise Unsupported('uk_choice range too large')
    v = new_sym(E, st, E.cstring(st, a[1]) or 'c', 8)
    return ('fork', st, [(k, v == z3.BitVecVal(k, 8), ('set', I[1], k)) for k in range(n)])

def uk_assume(E, st, fr, I, a):
    c = a[0]
    if type(c) is int:
        if not c: st.assumed = True; raise PathEnd()
        return
    c = E.tobool(c); m = E.feasible(st, c)
    if m is None: st.assumed = True; raise PathEnd()
    st.vals = m; E.assume(st, c)

def uk_assert(E, st, fr, I, a):
    c = a[0]; msg = E.cstring(st, a[1]) or 'assertion'
    E.stats['asserts_checked'] += 1; st.nasserts += 1
    E.assert_counts[msg] = E.assert_counts.get(msg, 0) + 1
    if E.replaying: return       # replaying a prefix: checked by whoever explored it first
    if type(c) is int:
        if not c:
            own = E.opts.get('own_prefix')
            if own is None or msg.startswith(own) or not (msg[:1] == 'C' and msg[3:4] == ':'): raise Violation('assert', msg)
            E.stats['foreign_assert_failures'] = E.stats.get('foreign_assert_failures', 0) + 1; raise PathEnd()
        return
    c = E.tobool(c); nc = z3.Not(c)
    if E.holds(st, nc): bad = st.vals
    else:
        E.stats['asserts_solver'] += 1; bad = E.check(nc)      # proof obligations always go to z3
        if bad is not None: bad = E.vals_from_model(st, bad)
    if bad is not None:
        good = E.feasible(st, c)
        st.vals = bad
        own = E.opts.get('own_prefix')
        if own is None or msg.startswith(own) or not (msg[:1] == 'C' and msg[3:4] == ':'): E.report(st, 'assert', msg)
        else: E.stats['foreign_assert_failures'] = E.stats.get('foreign_assert_failures', 0) + 1   # owned by another property's check
        if good is None: raise PathEnd()
        st.vals = good; E.assume(st, c)

def uk_cover(E, st, fr, I, a): st.covers.append(E.cstring(st, a[0]))
def uk_note(E, st, fr, I, a):
    if len(st.notes) < 16: st.notes.append(['$val', E.cstring(st, a[0]), a[1]])

def uk_note_text(E, st, fr, I, a):
    # remember (label, pointer, count, element size); rendered under the witness assignment when reported
    if len(st.notes) < 16: st.notes.append(['$text', E.cstring(st, a[0]), a[1], conc(E, a[2]), conc(E, a[3])])

def do_malloc(E, st, n, tag, site):
    oid = E.new_obj(st, n, 'h', 'heap:%s:%s' % (tag, site), site); st.live[oid] = tag; return ('P', oid, 0)
def do_free(E, st, p, tag):
    if type(p) is not tuple or p[0] != 'P': raise Violation('heap', 'free of non-pointer')
    if p[1] is None:
        if p[2] == 0: return
        raise Violation('heap', 'free of invalid pointer')
    o = st.mem.get(p[1])
    if o is None or o.kind != 'h': raise Violation('heap', 'free of non-heap object %s' % (o.name if o else '?'))
    if o.dead or p[1] not in st.live: raise Violation('heap', 'double free of block allocated in %s' % o.site)
    if p[2] != 0: raise Violation('heap', 'free of interior pointer (offset %d)' % p[2])
    if st.live[p[1]] != tag: raise Violation('heap', 'block from allocator "%s" released through "%s"' % (st.live[p[1]], tag))
    if o.ro: raise Violation('mem', 'free of read-only object')
    del st.live[p[1]]; o = E.wobj(st, p[1]); o.dead = True; o.cells = []

def site_of(st):
    # innermost non-harness-manager function on the stack
    for f in reversed(st.frames):
        if not f.fn.name.startswith('mm_'): return f.fn.name
    return '?'
def uk_malloc(E, st, fr, I, a): return do_malloc(E, st, conc(E, a[0]), 'uk', site_of(st))
def uk_free(E, st, fr, I, a): do_free(E, st, a[0], 'uk')
def uk_live(E, st, fr, I, a): return sum(1 for t in st.live.values() if t == 'uk')
def uk_live_libc(E, st, fr, I, a): return sum(1 for t in st.live.values() if t == 'libc')
def uk_libc_calls(E, st, fr, I, a): return st.libc_calls
def uk_blocksize(E, st, fr, I, a):
    p = a[0]
    if type(p) is not tuple or p[0] != 'P' or p[1] is None: raise Violation('heap', 'realloc of invalid pointer')
    o = st.mem.get(p[1])
    if o is None or o.kind != 'h' or o.dead or p[1] not in st.live: raise Violation('heap', 'realloc of a pointer that is not a live heap block')
    if p[2] != 0: raise Violation('heap', 'realloc of interior pointer (offset %d)' % p[2])
    return o.size
def uk_buf(E, st, fr, I, a):
    n = conc(E, a[0]); oid = E.new_obj(st, n, 'b', E.cstring(st, a[1]) or 'buf'); return ('P', oid, 0)
def uk_readonly(E, st, fr, I, a):
    if a[0][1] is not None: E.wobj(st, a[0][1]).ro = True
def uk_writable(E, st, fr, I, a):
    if a[0][1] is not None: E.wobj(st, a[0][1]).ro = False
def uk_kill(E, st, fr, I, a):
    o = E.wobj(st, a[0][1]); o.dead = True
def uk_watch(E, st, fr, I, a):
    o = E.wobj(st, a[0][1]); o.lo = a[0][2]; o.hi = a[0][2] + conc(E, a[1])
def uk_limit(E, st, fr, I, a):
    o = E.wobj(st, a[0][1]); lim = a[1]; es = conc(E, a[2])
    if type(lim) is not int and lim.size() < 64: lim = z3.SignExt(64 - lim.size(), lim)
    o.limit = (lim, es)
def uk_unlimit(E, st, fr, I, a):
    E.wobj(st, a[0][1]).limit = None
def uk_objsize(E, st, fr, I, a):
    return st.mem[a[0][1]].size - a[0][2]
def uk_is_sym(E, st, fr, I, a): return 0 if type(a[0]) is int else 1
def uk_same_object(E, st, fr, I, a):
    return int(type(a[0]) is tuple and type(a[1]) is tuple and a[0][1] == a[1][1] and a[0][1] is not None)
def uk_is_heap(E, st, fr, I, a):
    p = a[0]
    if p[1] is None: return 0
    o = st.mem.get(p[1]); return int(o is not None and o.kind == 'h' and not o.dead and p[2] == 0)
def uk_is_global(E, st, fr, I, a):
    p = a[0]
    if p[1] is None: return 0
    o = st.mem.get(p[1]); return int(o is not None and o.kind == 'g')
def uk_fail(E, st, fr, I, a): raise Violation('assert', E.cstring(st, a[0]) or 'uk_fail')
def uk_exit(E, st, fr, I, a): raise PathEnd()
def uk_concretize(E, st, fr, I, a): return conc(E, a[0])

def libc_malloc(E, st, fr, I, a):
    st.libc_calls += 1; return do_malloc(E, st, conc(E, a[0]), 'libc', site_of(st))
def libc_calloc(E, st, fr, I, a):
    st.libc_calls += 1; n = conc(E, a[0]) * conc(E, a[1])
    if n >= 1 << 63: return NULL
    return do_malloc(E, st, n, 'libc', site_of(st))
def libc_free(E, st, fr, I, a):
    st.libc_calls += 1; do_free(E, st, a[0], 'libc')
def libc_realloc(E, st, fr, I, a):
    st.libc_calls += 1; p = a[0]; n = conc(E, a[1])
    if p[1] is None: return do_malloc(E, st, n, 'libc', site_of(st))
    o = st.mem[p[1]]; np_ = do_malloc(E, st, n, 'libc', site_of(st)); no = st.mem[np_[1]]
    k = min(n, o.size); no.cells[:k] = o.cells[:k]; do_free(E, st, p, 'libc'); return np_
def libc_reallocarray(E, st, fr, I, a):
    n = conc(E, a[1]) * conc(E, a[2])
    return libc_realloc(E, st, fr, I, [a[0], n])

def memset(E, st, fr, I, a):
    p = a[0]; n = conc(E, a[2]); v = a[1]
    if n:
        E.access(st, p, n, True); o = E.wobj(st, p[1])
        if type(v) is not int: v = z3.Extract(7, 0, v) if v.size() > 8 else v
        else: v &= 255
        for i in range(n): o.cells[p[2] + i] = v
    return p
def memcpy(E, st, fr, I, a):
    d = a[0]; s = a[1]; n = conc(E, a[2])
    if n:
        so = E.access(st, s, n, False); E.access(st, d, n, True); do = E.wobj(st, d[1])
        chunk = so.cells[s[2]:s[2] + n]
        # slice tokens stay valid when copied whole; partial copies of a token group still resolve through Extract
        do.cells[d[2]:d[2] + n] = chunk
    return d
def assert_fail(E, st, fr, I, a):
    raise Violation('libassert', 'library assert() failed: %s' % (E.cstring(st, a[0]),))
def errno_location(E, st, fr, I, a):
    oid = E.globj.get('$errno')
    return ('P', oid, 0)
def abort(E, st, fr, I, a): raise Violation('abort', 'abort() called')

TABLE = {
    'uk_sym_bytes': uk_sym_bytes, 'uk_sym_words': uk_sym_words, 'uk_sym_int': uk_sym_int, 'uk_sym_long': uk_sym_long,
    'uk_choice': uk_choice, 'uk_assume': uk_assume, 'uk_assert': uk_assert, 'uk_cover': uk_cover, 'uk_note': uk_note, 'uk_note_text': uk_note_text,
    'uk_malloc': uk_malloc, 'uk_free': uk_free, 'uk_live': uk_live, 'uk_blocksize': uk_blocksize, 'uk_live_libc': uk_live_libc, 'uk_libc_calls': uk_libc_calls,
    'uk_buf': uk_buf, 'uk_readonly': uk_readonly, 'uk_writable': uk_writable, 'uk_kill': uk_kill, 'uk_watch': uk_watch,
    'uk_limit': uk_limit, 'uk_unlimit': uk_unlimit, 'uk_objsize': uk_objsize, 'uk_is_sym': uk_is_sym, 'uk_same_object': uk_same_object,
    'uk_is_heap': uk_is_heap, 'uk_is_global': uk_is_global, 'uk_fail': uk_fail, 'uk_exit': uk_exit, 'uk_concretize': uk_concretize,
    'malloc': libc_malloc, 'calloc': libc_calloc, 'free': libc_free, 'realloc': libc_realloc, 'reallocarray': libc_reallocarray,
    'memset': memset, 'memcpy': memcpy, 'memmove': memcpy, '__assert_fail': assert_fail, '__errno_location': errno_location, 'abort': abort,
}
PREFIX = [('llvm.memset', memset), ('llvm.memcpy', memcpy), ('llvm.memmove', memcpy)]
