# Build pipeline: /repo sources + harness -> one LLVM IR module (unoptimised + sroa), and native replay binaries.
import os, re, subprocess, shutil, glob, hashlib

REPO = os.environ.get('UK_REPO', '/repo')
VERIF = os.path.dirname(os.path.dirname(os.path.abspath(__file__)))
GUARD = 'URIPARSER_VERIF'

def sh(cmd, **kw):
    r = subprocess.run(cmd, capture_output=True, text=True, **kw)
    if r.returncode != 0:
        raise RuntimeError('command failed: %s\n%s\n%s' % (' '.join(cmd), r.stdout[-3000:], r.stderr[-3000:]))
    return r.stdout

def gen_config(outdir):
    src = open(os.path.join(REPO, 'src', 'UriConfig.h.in')).read()
    ver = re.search(r'VERSION\s+(\d+\.\d+\.\d+)', open(os.path.join(REPO, 'CMakeLists.txt')).read())
    src = src.replace('@PROJECT_VERSION@', ver.group(1) if ver else '0.0.0')
    src = re.sub(r'#cmakedefine (\w+)', r'#define \1', src)
    open(os.path.join(outdir, 'UriConfig.h'), 'w').write(src)

def lib_sources():
    return sorted(glob.glob(os.path.join(REPO, 'src', '*.c')))

CFLAGS = ['-I' + os.path.join(REPO, 'include'), '-DURI_LIBRARY_BUILD', '-D' + GUARD, '-fno-builtin', '-D__NO_CTYPE', '-Wno-everything']

def build_lib_ir(outdir):
    """compile every library unit to IR; returns (list of .ll, names of writable library globals)"""
    libdir = os.path.join(outdir, 'lib'); os.makedirs(libdir, exist_ok=True)
    gen_config(libdir)
    lls = []
    for c in lib_sources():
        ll = os.path.join(libdir, os.path.basename(c)[:-2] + '.ll')
        sh(['clang-14', '-O1', '-Xclang', '-disable-llvm-passes', '-S', '-emit-llvm', '-I' + libdir] + CFLAGS + [c, '-o', ll])
        lls.append(ll)
    writable = []; allg = []
    for ll in lls:
        for m in re.finditer(r'^@("[^"]+"|[\w.$-]+) = (.*)$', open(ll).read(), re.M):
            name = m.group(1).strip('"'); rest = m.group(2)
            toks_ = rest.split()
            kind = 'constant' if re.search(r'\bconstant\b', rest.split('{')[0].split('[')[0].split('c"')[0]) else 'global'
            allg.append((name, kind))
            if kind == 'global' and 'external' not in toks_[:3]: writable.append(name)
    return lls, writable, allg

def build_module(outdir, harness_c, defines=(), name=None, lib=None):
    os.makedirs(outdir, exist_ok=True)
    if lib is None: lib = build_lib_ir(outdir)
    lls, writable, allg = lib
    libdir = os.path.dirname(lls[0])
    name = name or os.path.basename(harness_c)[:-2]
    hll = os.path.join(outdir, name + '.h.ll')
    inc = ['-I' + os.path.join(VERIF, 'harness'), '-I' + os.path.join(VERIF, 'oracle'), '-I' + os.path.join(outdir), '-I' + libdir, '-I' + os.path.join(REPO, 'src')]
    sh(['clang-14', '-O1', '-Xclang', '-disable-llvm-passes', '-S', '-emit-llvm'] + inc + CFLAGS + ['-D' + d for d in defines] + [harness_c, '-o', hll])
    lcll = os.path.join(outdir, name + '.libc.ll')
    sh(['clang-14', '-O1', '-Xclang', '-disable-llvm-passes', '-S', '-emit-llvm', '-fno-builtin', '-D__NO_CTYPE'] + ['-D' + d for d in defines] + [os.path.join(VERIF, 'harness', 'uk_libc.c'), '-o', lcll])
    linked = os.path.join(outdir, name + '.linked.ll'); final = os.path.join(outdir, name + '.ll')
    sh(['llvm-link-14', '-S'] + lls + [lcll, hll, '-o', linked])
    sh(['opt-14', '-S', '-passes=function(sroa)', linked, '-o', final])
    os.remove(linked)
    return final, writable

def build_native(outdir, harness_c, defines=(), name=None, sanitize=True):
    """native replay binary of the same harness against /repo's sources"""
    os.makedirs(outdir, exist_ok=True)
    libdir = os.path.join(outdir, 'lib'); os.makedirs(libdir, exist_ok=True)
    if not os.path.exists(os.path.join(libdir, 'UriConfig.h')): gen_config(libdir)
    name = name or os.path.basename(harness_c)[:-2]
    exe = os.path.join(outdir, name + '.native')
    inc = ['-I' + os.path.join(VERIF, 'harness'), '-I' + os.path.join(VERIF, 'oracle'), '-I' + outdir, '-I' + libdir, '-I' + os.path.join(REPO, 'include'), '-I' + os.path.join(REPO, 'src')]
    san = ['-fsanitize=address,undefined', '-fno-sanitize-recover=undefined', '-fno-omit-frame-pointer'] if sanitize else []
    sh(['clang-14', '-O1', '-g', '-w'] + san + inc + ['-DURI_LIBRARY_BUILD', '-DUK_NATIVE', '-D' + GUARD] + ['-D' + d for d in defines] +
       [harness_c, os.path.join(VERIF, 'harness', 'uk_native.c')] + lib_sources() + ['-o', exe])
    return exe
