# developer CLI: build one harness against /repo and explore it.   python3-vt -m uksym.run harness/h_parse.c -DP_ALL -DNMAX=4 -j16
import sys, os, time, json, argparse
from . import build, driver
def main():
    ap = argparse.ArgumentParser(); ap.add_argument('harness'); ap.add_argument('-D', action='append', default=[]); ap.add_argument('-j', type=int, default=16)
    ap.add_argument('--out', default='/verif/build/dev'); ap.add_argument('--timeout', type=float, default=0); ap.add_argument('--json')
    ap.add_argument('--no-overflow', action='store_true'); ap.add_argument('--solver-timeout-ms', type=int, default=20000)
    a = ap.parse_args()
    t = time.time(); os.makedirs(a.out, exist_ok=True)
    if 'oracle_dfa.h' not in os.listdir(a.out):
        build.sh(['python3', os.path.join(build.VERIF, 'oracle', 'abnf2dfa.py'), os.path.join(build.REPO, 'doc', 'rfc3986_grammar_only.txt'), os.path.join(a.out, 'oracle_dfa.h')])
    final, writable = build.build_module(a.out, a.harness, a.D)
    print('build %.1fs' % (time.time() - t))
    opts = {'overflow_check': not a.no_overflow, 'solver_timeout_ms': a.solver_timeout_ms}
    if a.timeout: opts['deadline'] = time.time() + a.timeout
    r = driver.run_single(final, writable, opts) if a.j <= 1 else driver.run_parallel(final, writable, opts, a.j)
    if a.json: json.dump(r, open(a.json, 'w'), indent=1, default=str)
    print('status', r['status'], r.get('errors'))
    print('stats', {k: (round(v, 1) if isinstance(v, float) else v) for k, v in r['stats'].items()}, 'wall %.1f' % r['wall_s'], 'units', r['units'])
    print('covers', r['covers']); print('ub_notes', r['ub_notes'])
    seen = set()
    for v in r['violations']:
        if v['msg'] in seen: continue
        seen.add(v['msg']); print('VIOL', v['kind'], '|', v['msg'], '|', v['stack'][-3:], v.get('texts') or v['rendered'])
    print('violations', len(r['violations']))
main()
