/* h_equals: two shape-bounded texts -> parser -> uriEqualsUri against component-wise identity (oracle S) and identity of the
 * recomposed texts.  Serves C11 (and C12: both operands read-only). */
#include "common.h"
#include "mm.h"
#include "oracle_split.h"
#include "checks.h"
#include "gen.h"
#ifndef KE
#define KE 2
#endif
#ifndef SEGL
#define SEGL 1
#endif
#ifndef EFLAGS
#define EFLAGS (G_SCHEME_OPT | G_AUTH | G_QUERY | G_FRAG)
#endif
#define CAP (GEN_CAP(KE, SEGL) + 8)
static CH *exact(const CH *src, long n, const char *name){ CH *p = uk_buf((size_t)n * sizeof(CH), name); long i; for (i = 0; i < n; i++) p[i] = src[i]; uk_readonly(p, (size_t)n * sizeof(CH)); return p; }
static int sub_eq(const CH *a, long a1, long a2, const CH *b, long b1, long b2){
  long i; if ((a1 < 0) != (b1 < 0)) return 0; if (a1 < 0) return 1; if (a2 - a1 != b2 - b1) return 0;
  for (i = 0; i < a2 - a1; i++) if (a[a1 + i] != b[b1 + i]) return 0;
  return 1;
}
int main(void){
  CH t1[CAP], t2[CAP]; CH *a, *b; long an, bn; URI A, B; const CH *ep = 0; os_split_t sa, sb; int eq, eq2, same, k, la = 0, lb = 0; CH *ra, *rb; long i;
  an = gen_uri(t1, EFLAGS, KE, SEGL, "a"); a = exact(t1, an, "textA");
#ifdef SHARED_BUFFER
  /* B is parsed from a sub-range of A's own buffer that shares its start or its end with A's range */
  { long s0 = 0, e0 = an; if (uk_choice(2, "share-start")) e0 = uk_choice((int)an + 1, "sub-end"); else s0 = uk_choice((int)an + 1, "sub-start");
    b = a + s0; bn = e0 - s0; (void)t2; }
#else
  bn = gen_uri(t2, EFLAGS, KE, SEGL, "b"); b = exact(t2, bn, "textB");
#endif
  uk_note_text("a", a, an, sizeof(CH)); uk_note_text("b", b, bn, sizeof(CH));
  if (U(uriParseSingleUriExMm)(&A, a, a + an, &ep, &mm) != URI_SUCCESS){ uk_assume(0); return 0; }
  if (U(uriParseSingleUriExMm)(&B, b, b + bn, &ep, &mm) != URI_SUCCESS){ U(uriFreeUriMembersMm)(&A, &mm); uk_assume(0); return 0; }
  os_split(a, an, &sa); os_split(b, bn, &sb);
  ro_uri(&A); ro_uri(&B);
  eq = U(uriEqualsUri)(&A, &B); eq2 = U(uriEqualsUri)(&B, &A);
  uk_assert(U(uriEqualsUri)(&A, &A) == URI_TRUE, "C11: equality is reflexive");
  rw_uri(&A); rw_uri(&B);
  uk_assert(eq == URI_TRUE || eq == URI_FALSE, "C11: result is a proper boolean");
  uk_assert(eq == eq2, "C11: equality is symmetric");
  uk_assert(U(uriEqualsUri)(0, 0) == URI_TRUE, "C11: two NULL arguments are equal");
  uk_assert(U(uriEqualsUri)(&A, 0) == URI_FALSE && U(uriEqualsUri)(0, &A) == URI_FALSE, "C11: a URI never equals NULL");
  /* component-wise identity per oracle S */
  same = sub_eq(a, sa.sch_a, sa.sch_b, b, sb.sch_a, sb.sch_b) && sa.has_auth == sb.has_auth && sub_eq(a, sa.ui_a, sa.ui_b, b, sb.ui_a, sb.ui_b)
      && sa.hostkind == sb.hostkind && sub_eq(a, sa.port_a, sa.port_b, b, sb.port_a, sb.port_b) && sa.abs_path == sb.abs_path && sa.nseg == sb.nseg
      && sub_eq(a, sa.q_a, sa.q_b, b, sb.q_a, sb.q_b) && sub_eq(a, sa.f_a, sa.f_b, b, sb.f_a, sb.f_b);
  if (same){
    if (sa.hostkind == HK_IP4){ for (k = 0; k < 4; k++) if (sa.ip[k] != sb.ip[k]) same = 0; }
    else if (sa.hostkind == HK_IP6){ for (k = 0; k < 16; k++) if (sa.ip[k] != sb.ip[k]) same = 0; }
    else if (!sub_eq(a, sa.host_a, sa.host_b, b, sb.host_a, sb.host_b)) same = 0;
  }
  if (same) for (k = 0; k < sa.nseg; k++) if (!sub_eq(a, sa.seg_a[k], sa.seg_b[k], b, sb.seg_a[k], sb.seg_b[k])) same = 0;
#ifdef KF_C11_ABSFLAG
  /* known finding: the absolute-path flag is ignored when a scheme is present */
  if (sa.sch_a >= 0 && sb.sch_a >= 0 && !sa.has_auth && !sb.has_auth && sa.abs_path != sb.abs_path){ uk_cover("known-finding-class"); goto done; }
#endif
  uk_assert((eq == URI_TRUE) == (same != 0), "C11: URIs are equal exactly when all components are identical");
  /* identity of recomposed texts */
  ra = recompose(&A, &la); rb = recompose(&B, &lb);
  { int teq = (la == lb); if (teq) for (i = 0; i < la; i++) if (ra[i] != rb[i]){ teq = 0; break; }
    uk_assert((eq == URI_TRUE) == teq, "C11: URIs are equal exactly when their recomposed texts are identical"); }
  if (eq == URI_TRUE) uk_cover("equal"); else uk_cover("different");
#ifdef KF_C11_ABSFLAG
done:
#endif
  U(uriFreeUriMembersMm)(&A, &mm); U(uriFreeUriMembersMm)(&B, &mm);
  uk_assert(uk_live() == 0, "C13: all blocks returned");
  (void)ra; (void)rb; (void)i;
  return 0;
}
