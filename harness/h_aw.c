/* h_aw: C19 -- every wide-character function behaves like its narrow counterpart on the widened input.
 * The narrow text is N symbolic bytes 1..255 (or a shape-bounded text), the wide text is its zero extension. */
#include <wchar.h>
#include <string.h>
#include <uriparser/Uri.h>
#include "uk.h"
#include "mm.h"
#ifndef NMAX
#define NMAX 4
#endif
typedef struct { int present; long off, len; } rsnap_t;
typedef struct { rsnap_t scheme, ui, host, port, query, frag, fut, seg[12]; int nseg, abs, owner, hk; unsigned char ip[16]; } snap_t;
#define RSNAP(r, base, out) do { (out)->present = (r).first != 0; (out)->len = (r).first ? (long)((r).afterLast - (r).first) : -1; \
  (out)->off = ((r).first && (out)->len > 0) ? (long)((r).first - (base)) : -1; } while (0)
#define DEFSNAP(NAME, URIT, SEGT, CHT) static void NAME(const URIT *u, const CHT *base, snap_t *s){ const SEGT *g; int k = 0; \
  memset(s, 0, sizeof *s); RSNAP(u->scheme, base, &s->scheme); RSNAP(u->userInfo, base, &s->ui); RSNAP(u->hostText, base, &s->host); RSNAP(u->portText, base, &s->port); \
  RSNAP(u->query, base, &s->query); RSNAP(u->fragment, base, &s->frag); RSNAP(u->hostData.ipFuture, base, &s->fut); \
  for (g = u->pathHead; g && k < 12; g = g->next){ RSNAP(g->text, base, &s->seg[k]); k++; } s->nseg = k; s->abs = u->absolutePath; s->owner = u->owner; \
  s->hk = u->hostData.ip4 ? 2 : u->hostData.ip6 ? 3 : u->hostData.ipFuture.first ? 4 : u->hostText.first ? 1 : 0; \
  if (u->hostData.ip4) memcpy(s->ip, u->hostData.ip4->data, 4); if (u->hostData.ip6) memcpy(s->ip, u->hostData.ip6->data, 16); }
DEFSNAP(snapA, UriUriA, UriPathSegmentA, char)
DEFSNAP(snapW, UriUriW, UriPathSegmentW, wchar_t)
static void rs_eq(const rsnap_t *a, const rsnap_t *b, int offsets){
  uk_assert(a->present == b->present && a->len == b->len, "C19: wide and narrow results have the same components (presence and length in characters)");
  if (offsets) uk_assert(a->off == b->off, "C19: wide and narrow component offsets agree (in characters)");
}
static void snap_eq(const snap_t *a, const snap_t *b, int offsets){
  int k; rs_eq(&a->scheme, &b->scheme, offsets); rs_eq(&a->ui, &b->ui, offsets); rs_eq(&a->host, &b->host, offsets); rs_eq(&a->port, &b->port, offsets);
  rs_eq(&a->query, &b->query, offsets); rs_eq(&a->frag, &b->frag, offsets); rs_eq(&a->fut, &b->fut, offsets);
  uk_assert(a->nseg == b->nseg && a->abs == b->abs && a->owner == b->owner && a->hk == b->hk, "C19: wide and narrow results agree on segment count, flags and host kind");
  for (k = 0; k < a->nseg && k < b->nseg; k++) rs_eq(&a->seg[k], &b->seg[k], offsets);
  for (k = 0; k < 16; k++) uk_assert(a->ip[k] == b->ip[k], "C19: wide and narrow results carry the same address bytes");
}
static void text_eq(const char *a, const wchar_t *w, long n, const char *msg){ long i; for (i = 0; i < n; i++) uk_assert((unsigned long)(unsigned char)a[i] == (unsigned long)(unsigned int)w[i], msg); }
static void tostring_eq(const UriUriA *a, const UriUriW *w){
  int ra = -1, rw = -1, ca, cw, wa = -1, ww = -1; char *ta; wchar_t *tw;
  ca = uriToStringCharsRequiredA(a, &ra); cw = uriToStringCharsRequiredW(w, &rw);
  uk_assert(ca == cw && ra == rw, "C19: required size in characters agrees");
  if (ra != rw || ca != URI_SUCCESS) return;
  ta = uk_buf((size_t)(ra + 1), "outA"); tw = uk_buf((size_t)(rw + 1) * sizeof(wchar_t), "outW");     /* sized in characters, exactly */
  ca = uriToStringA(ta, a, ra + 1, &wa); cw = uriToStringW(tw, w, rw + 1, &ww);
  uk_assert(ca == cw && wa == ww, "C19: recomposition return code and characters written agree");
  text_eq(ta, tw, ra + 1, "C19: recomposed wide text is the widened narrow text (complete, terminator included)");
}

int main(void){
#ifdef MODE_PARSE
  long n = uk_choice(NMAX + 1, "len"), i; char *a = uk_buf((size_t)n, "textA"); wchar_t *w = uk_buf((size_t)n * sizeof(wchar_t), "textW");
  UriUriA ua; UriUriW uw; const char *ea = 0; const wchar_t *ew = 0; int ra, rw; snap_t sa, sw;
  uk_sym_bytes(a, (size_t)n, "t");
  for (i = 0; i < n; i++){ uk_assume(a[i] != 0); w[i] = (wchar_t)(unsigned char)a[i]; }
  uk_readonly(a, (size_t)n); uk_readonly(w, (size_t)n * sizeof(wchar_t)); uk_note_text("text", a, n, 1);
  ra = uriParseSingleUriExMmA(&ua, a, a + n, &ea, &mm); rw = uriParseSingleUriExMmW(&uw, w, w + n, &ew, &mm);
  uk_assert(ra == rw, "C19: parse return codes agree");
  if (ra != rw) return 0;
  if (ra != URI_SUCCESS){ uk_assert((ea == 0) == (ew == 0) && (!ea || (ea - a) == (ew - w)), "C19: error offsets agree"); uk_cover("rejected"); return 0; }
  snapA(&ua, a, &sa); snapW(&uw, w, &sw); snap_eq(&sa, &sw, 1);
  tostring_eq(&ua, &uw);
  { unsigned ma = uriNormalizeSyntaxMaskRequiredA(&ua), mw = uriNormalizeSyntaxMaskRequiredW(&uw); uk_assert(ma == mw, "C19: required normalisation masks agree"); }
  if (uk_choice(2, "op") == 0){
    ra = uriMakeOwnerMmA(&ua, &mm); rw = uriMakeOwnerMmW(&uw, &mm); uk_assert(ra == rw, "C19: make-owner return codes agree"); uk_cover("make-owner");
  } else {
    ra = uriNormalizeSyntaxExMmA(&ua, (unsigned)-1, &mm); rw = uriNormalizeSyntaxExMmW(&uw, (unsigned)-1, &mm); uk_assert(ra == rw, "C19: normalisation return codes agree"); uk_cover("normalize");
  }
  if (ra == URI_SUCCESS && rw == URI_SUCCESS){ snapA(&ua, a, &sa); snapW(&uw, w, &sw); snap_eq(&sa, &sw, 0); tostring_eq(&ua, &uw); }
  uriFreeUriMembersMmA(&ua, &mm); uriFreeUriMembersMmW(&uw, &mm);
  uk_assert(uk_live() == 0, "C13: all blocks returned");
  uk_cover("accepted");
#elif defined(MODE_PAIR)
  /* two texts: resolve, create reference, compare */
  long n1 = uk_choice(NMAX + 1, "len1"), n2 = uk_choice(NMAX + 1, "len2"), i; char *a1 = uk_buf((size_t)n1, "a1"), *a2 = uk_buf((size_t)n2, "a2");
  wchar_t *w1 = uk_buf((size_t)n1 * sizeof(wchar_t), "w1"), *w2 = uk_buf((size_t)n2 * sizeof(wchar_t), "w2");
  UriUriA A1, A2, TA; UriUriW W1, W2, TW; const char *ea; const wchar_t *ew; int ra, rw, op; snap_t sa, sw;
  uk_sym_bytes(a1, (size_t)n1, "s"); uk_sym_bytes(a2, (size_t)n2, "t");
  for (i = 0; i < n1; i++){ uk_assume(a1[i] != 0); w1[i] = (wchar_t)(unsigned char)a1[i]; }
  for (i = 0; i < n2; i++){ uk_assume(a2[i] != 0); w2[i] = (wchar_t)(unsigned char)a2[i]; }
  uk_note_text("first", a1, n1, 1); uk_note_text("second", a2, n2, 1);
  if (uriParseSingleUriExMmA(&A1, a1, a1 + n1, &ea, &mm) || uriParseSingleUriExMmA(&A2, a2, a2 + n2, &ea, &mm)){ uk_assume(0); return 0; }
  if (uriParseSingleUriExMmW(&W1, w1, w1 + n1, &ew, &mm) || uriParseSingleUriExMmW(&W2, w2, w2 + n2, &ew, &mm)){ uk_fail("C19: wide parse rejects what narrow parse accepts"); return 0; }
  uk_assert(uriEqualsUriA(&A1, &A2) == uriEqualsUriW(&W1, &W2), "C19: comparison results agree");
  op = uk_choice(3, "op");
  if (op == 0){ ra = uriAddBaseUriExMmA(&TA, &A1, &A2, URI_RESOLVE_STRICTLY, &mm); rw = uriAddBaseUriExMmW(&TW, &W1, &W2, URI_RESOLVE_STRICTLY, &mm); uk_cover("add-base"); }
  else { ra = uriRemoveBaseUriMmA(&TA, &A1, &A2, op == 2, &mm); rw = uriRemoveBaseUriMmW(&TW, &W1, &W2, op == 2, &mm); uk_cover("remove-base"); }
  uk_assert(ra == rw, "C19: return codes of the pair operation agree");
  if (ra == URI_SUCCESS && rw == URI_SUCCESS){ snapA(&TA, a1, &sa); snapW(&TW, w1, &sw); snap_eq(&sa, &sw, 0); tostring_eq(&TA, &TW); uk_cover("pair-op-succeeded"); }
  uriFreeUriMembersMmA(&TA, &mm); uriFreeUriMembersMmW(&TW, &mm);
  uriFreeUriMembersMmA(&A1, &mm); uriFreeUriMembersMmA(&A2, &mm); uriFreeUriMembersMmW(&W1, &mm); uriFreeUriMembersMmW(&W2, &mm);
  uk_assert(uk_live() == 0, "C13: all blocks returned");
#elif defined(MODE_ESC)
#ifdef TOKENS
  long n = uk_choice(NMAX + 1, "len"), i; int f1 = 0, f2 = 0, br = 3;     /* token mode: options fixed (the raw mode varies them) */
#else
  long n = uk_choice(NMAX + 1, "len"), i; int f1 = uk_choice(2, "spaceToPlus"), f2 = uk_choice(2, "normalizeBreaks"), br = uk_choice(4, "breakConversion");
#endif
  char *a = uk_buf((size_t)n + 1, "inA"), *oa = uk_buf((size_t)(6 * n + 1), "outA"), *ea; wchar_t *w = uk_buf((size_t)(n + 1) * sizeof(wchar_t), "inW"), *ow = uk_buf((size_t)(6 * n + 1) * sizeof(wchar_t), "outW"), *ew;
  const char *ua; const wchar_t *uw; UriBreakConversion bc = br == 0 ? URI_BR_TO_LF : br == 1 ? URI_BR_TO_CRLF : br == 2 ? URI_BR_TO_CR : URI_BR_DONT_TOUCH;
#ifdef TOKENS
  /* NMAX tokens, each a symbolic byte or a %XY triplet with symbolic hex digits */
  { long t, k = 0, nt = n; a = uk_buf((size_t)(3 * nt + 1), "inA");
    for (t = 0; t < nt; t++){
      if (uk_choice(2, "triplet")){ char h[2]; uk_sym_bytes(h, 2, "x"); uk_assume(((h[0] >= '0') & (h[0] <= '9')) | ((h[0] >= 'a') & (h[0] <= 'f')) | ((h[0] >= 'A') & (h[0] <= 'F'))); uk_assume(((h[1] >= '0') & (h[1] <= '9')) | ((h[1] >= 'a') & (h[1] <= 'f')) | ((h[1] >= 'A') & (h[1] <= 'F'))); a[k++] = '%'; a[k++] = h[0]; a[k++] = h[1]; }
      else { char c; uk_sym_bytes(&c, 1, "t"); uk_assume(c != 0); a[k++] = c; } }
    n = k; a[n] = 0; w = uk_buf((size_t)(n + 1) * sizeof(wchar_t), "inW"); oa = uk_buf((size_t)(6 * n + 1), "outA"); ow = uk_buf((size_t)(6 * n + 1) * sizeof(wchar_t), "outW");
    for (i = 0; i < n; i++) w[i] = (wchar_t)(unsigned char)a[i]; w[n] = 0; }
#else
  uk_sym_bytes(a, (size_t)n, "t"); a[n] = 0;
  for (i = 0; i < n; i++){ uk_assume(a[i] != 0); w[i] = (wchar_t)(unsigned char)a[i]; } w[n] = 0;
#endif
  uk_note_text("text", a, n, 1);
  ea = uriEscapeExA(a, a + n, oa, f1, f2); ew = uriEscapeExW(w, w + n, ow, f1, f2);
  uk_assert(ea - oa == ew - ow, "C19: escaped lengths agree"); if (ea - oa == ew - ow) text_eq(oa, ow, ea - oa + 1, "C19: escaped wide text is the widened narrow text");
  ua = uriUnescapeInPlaceExA(a, f1, bc); uw = uriUnescapeInPlaceExW(w, f1, bc);
  uk_assert(ua - a == uw - w, "C19: unescaped lengths agree"); if (ua - a == uw - w) text_eq(a, w, ua - a + 1, "C19: unescaped wide text is the widened narrow text");
  uk_cover("escape-unescape");
#elif defined(MODE_QUERY)
  long n = uk_choice(NMAX + 1, "len"), i; char *a = uk_buf((size_t)n, "qA"); wchar_t *w = uk_buf((size_t)n * sizeof(wchar_t), "qW");
  UriQueryListA *la = 0, *pa; UriQueryListW *lw = 0, *pw; int ca = -1, cw = -1, ra, rw, qa = -1, qw = -1; char *sa = 0; wchar_t *sw = 0;
  uk_sym_bytes(a, (size_t)n, "t"); for (i = 0; i < n; i++){ uk_assume(a[i] != 0); w[i] = (wchar_t)(unsigned char)a[i]; }
  uk_note_text("query", a, n, 1);
  ra = uriDissectQueryMallocExMmA(&la, &ca, a, a + n, URI_TRUE, URI_BR_DONT_TOUCH, &mm); rw = uriDissectQueryMallocExMmW(&lw, &cw, w, w + n, URI_TRUE, URI_BR_DONT_TOUCH, &mm);
  uk_assert(ra == rw && ca == cw, "C19: dissect return codes and item counts agree");
  for (pa = la, pw = lw; pa && pw; pa = pa->next, pw = pw->next){
    long k = (long)strlen(pa->key); uk_assert(k == (long)wcslen(pw->key), "C19: key lengths agree"); text_eq(pa->key, pw->key, k, "C19: wide key is the widened narrow key");
    uk_assert((pa->value == 0) == (pw->value == 0), "C19: value presence agrees");
    if (pa->value && pw->value){ k = (long)strlen(pa->value); uk_assert(k == (long)wcslen(pw->value), "C19: value lengths agree"); text_eq(pa->value, pw->value, k, "C19: wide value is the widened narrow value"); }
  }
  uk_assert(pa == 0 && pw == 0, "C19: list lengths agree");
  if (la && lw){
    ra = uriComposeQueryCharsRequiredExA(la, &qa, URI_TRUE, URI_TRUE); rw = uriComposeQueryCharsRequiredExW(lw, &qw, URI_TRUE, URI_TRUE);
    uk_assert(ra == rw && qa == qw, "C19: compose chars required agree");
    ra = uriComposeQueryMallocExMmA(&sa, la, URI_TRUE, URI_TRUE, &mm); rw = uriComposeQueryMallocExMmW(&sw, lw, URI_TRUE, URI_TRUE, &mm);
    uk_assert(ra == rw, "C19: compose return codes agree");
    if (ra == URI_SUCCESS && rw == URI_SUCCESS){ long k = (long)strlen(sa); uk_assert(k == (long)wcslen(sw), "C19: composed lengths agree"); text_eq(sa, sw, k + 1, "C19: composed wide text is the widened narrow text"); mm.free(&mm, sa); mm.free(&mm, sw); }
    uk_cover("compose");
  }
  uriFreeQueryListMmA(la, &mm); uriFreeQueryListMmW(lw, &mm);
  uk_assert(uk_live() == 0, "C13: all blocks returned");
  uk_cover("dissect");
#else /* MODE_FILE */
  long n = uk_choice(NMAX + 1, "len"), i, la, lw; int win = uk_choice(2, "windows"); char *a = uk_buf((size_t)n + 1, "nameA"), *ua = uk_buf((size_t)(8 + 3 * n + 1), "uriA"), *ba;
  wchar_t *w = uk_buf((size_t)(n + 1) * sizeof(wchar_t), "nameW"), *uw = uk_buf((size_t)(8 + 3 * n + 1) * sizeof(wchar_t), "uriW"), *bw; int ra, rw;
  uk_sym_bytes(a, (size_t)n, "t"); a[n] = 0; for (i = 0; i < n; i++){ uk_assume(a[i] != 0); w[i] = (wchar_t)(unsigned char)a[i]; } w[n] = 0;
  uk_note_text("filename", a, n, 1);
  if (win){ ra = uriWindowsFilenameToUriStringA(a, ua); rw = uriWindowsFilenameToUriStringW(w, uw); } else { ra = uriUnixFilenameToUriStringA(a, ua); rw = uriUnixFilenameToUriStringW(w, uw); }
  uk_assert(ra == rw, "C19: filename to URI return codes agree");
  la = (long)strlen(ua); lw = (long)wcslen(uw); uk_assert(la == lw, "C19: URI string lengths agree"); if (la == lw) text_eq(ua, uw, la + 1, "C19: wide URI string is the widened narrow URI string");
  ba = uk_buf((size_t)la + 3, "backA"); bw = uk_buf((size_t)(lw + 3) * sizeof(wchar_t), "backW");
  if (win){ ra = uriUriStringToWindowsFilenameA(ua, ba); rw = uriUriStringToWindowsFilenameW(uw, bw); } else { ra = uriUriStringToUnixFilenameA(ua, ba); rw = uriUriStringToUnixFilenameW(uw, bw); }
  uk_assert(ra == rw, "C19: URI to filename return codes agree");
  la = (long)strlen(ba); lw = (long)wcslen(bw); uk_assert(la == lw, "C19: filename lengths agree"); if (la == lw) text_eq(ba, bw, la + 1, "C19: wide filename is the widened narrow filename");
  uk_cover("filename");
#endif
  return 0;
}
