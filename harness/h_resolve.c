/* h_resolve: two shape-bounded texts (base, reference) -> real parser -> uriAddBaseUriExMm -> oracle R (RFC 3986 5.2.2/5.2.3/5.2.4 on strings).
 * Serves C06 (and C07 C05 C13 C12 C20 through the shared checkers). */
#include "common.h"
#include "mm.h"
#include "oracle_resolve.h"
#include "checks.h"
#include "gen.h"
#ifndef KB
#define KB 2
#endif
#ifndef KR
#define KR 2
#endif
#ifndef SEGL
#define SEGL 2
#endif
#ifndef BFLAGS
#define BFLAGS (G_SCHEME_REQ | G_AUTH | G_QUERY)
#endif
#ifndef RFLAGS
#define RFLAGS (G_SCHEME_OPT | G_AUTH | G_QUERY | G_FRAG)
#endif
#define CAP (GEN_CAP(KB, SEGL) + GEN_CAP(KR, SEGL) + 8)

static CH *exact(const CH *src, long n, const char *name){ CH *p = uk_buf((size_t)n * sizeof(CH), name); long i; for (i = 0; i < n; i++) p[i] = src[i]; uk_readonly(p, (size_t)n * sizeof(CH)); return p; }

int main(void){
  CH tb[CAP], tr[CAP], exp[2 * CAP], tmp[2 * CAP], tmp2[2 * CAP]; CH *bt, *rt; long bn, rn, en, i; URI B, R, T; const CH *ep = 0; int rc, compat, len = 0; CH *got;
  os_split_t bs, rs;
#ifdef BASE_FIXED
  /* constant base text (e.g. a deep one); KB only sizes the buffers */
  { static const char fixed[] = BASE_FIXED; for (bn = 0; fixed[bn]; bn++) tb[bn] = (CH)fixed[bn]; }
  bt = exact(tb, bn, "base");
#else
  bn = gen_uri(tb, BFLAGS, KB, SEGL, "b"); bt = exact(tb, bn, "base");
#endif
  rn = gen_uri(tr, RFLAGS, KR, SEGL, "r"); rt = exact(tr, rn, "ref");
  if (U(uriParseSingleUriExMm)(&B, bt, bt + bn, &ep, &mm) != URI_SUCCESS) { uk_assume(0); return 0; }
  if (U(uriParseSingleUriExMm)(&R, rt, rt + rn, &ep, &mm) != URI_SUCCESS) { U(uriFreeUriMembersMm)(&B, &mm); uk_assume(0); return 0; }
  uk_note_text("base", bt, bn, sizeof(CH)); uk_note_text("ref", rt, rn, sizeof(CH));
  compat = uk_choice(2, "compat");
  ro_uri(&B); ro_uri(&R);
  mm_armed = 1;
  rc = U(uriAddBaseUriExMm)(&T, &R, &B, compat ? URI_RESOLVE_IDENTICAL_SCHEME_COMPAT : URI_RESOLVE_STRICTLY, &mm);
  mm_armed = 0;
  rw_uri(&B); rw_uri(&R);
#ifdef FAILING
  if (mm_failed){
    uk_assert(rc == URI_ERROR_MALLOC, "C14: resolution with a failed allocation returns URI_ERROR_MALLOC");
    U(uriFreeUriMembersMm)(&T, &mm);                       /* the caller's ordinary cleanup of the output URI */
    U(uriFreeUriMembersMm)(&R, &mm); U(uriFreeUriMembersMm)(&B, &mm);
    uk_assert(uk_live() == 0, "C14: nothing stays allocated after a failed resolution and cleanup of the output");
    uk_cover("alloc-failure-injected"); return 0;
  }
#endif
  os_split(bt, bn, &bs); os_split(rt, rn, &rs);
#ifdef KF_C06_NOFIX_ABS
  /* known finding: absolute-path / own-scheme / own-authority... see known_findings.json */
#endif
  if (bs.sch_a < 0){
    uk_assert(rc == URI_ERROR_ADDBASE_REL_BASE, "C06: a base without scheme is rejected with URI_ERROR_ADDBASE_REL_BASE");
    U(uriFreeUriMembersMm)(&T, &mm); uk_cover("relative-base");
  } else {
    uk_assert(rc == URI_SUCCESS, "C06: resolution against an absolute base succeeds");
    if (rc == URI_SUCCESS){
      en = or_resolve(bt, bn, &bs, rt, rn, &rs, compat, exp, tmp, tmp2);
#ifdef P_C06
      got = recompose(&T, &len); uk_note_text("got", got, len, sizeof(CH)); uk_note_text("expected", exp, en, sizeof(CH));
      uk_assert(len == en, "C06: resolved URI equals the RFC 3986 5.2.2 target (length)");
      if (len == en) for (i = 0; i < en; i++) uk_assert(got[i] == exp[i], "C06: resolved URI equals the RFC 3986 5.2.2 target");
      { const URI *src = (rs.sch_a >= 0 && !(compat && rng_text_eq(&R.scheme, &B.scheme))) || rs.has_auth ? &R : &B;
        uk_assert(host_kind(&T) == host_kind(src), "C06: host kind of the target is that of the authority it takes"); }
#endif
#ifdef P_C07
      chk_reparse_stable(&T);
#endif
#ifdef P_C05
      chk_tostring_contract(&T);
#endif
      if (rs.sch_a >= 0) uk_cover("ref-has-scheme"); else if (rs.has_auth) uk_cover("ref-has-authority");
      else if (rs.path_a == rs.path_b) uk_cover("ref-empty-path"); else if (CHV(rt[rs.path_a]) == '/') uk_cover("ref-absolute-path"); else uk_cover("ref-merged");
      if (!bs.has_auth && en >= 3 && exp[bs.sch_b + 1] == '/' && exp[bs.sch_b + 2] == '.' ) uk_cover("slash-dot-guard-expected");
      U(uriFreeUriMembersMm)(&T, &mm);
    }
  }
  U(uriFreeUriMembersMm)(&R, &mm); U(uriFreeUriMembersMm)(&B, &mm);
  uk_assert(uk_live() == 0, "C13: all blocks returned after freeing target, reference and base");
  uk_assert(uk_libc_calls() == 0, "C13: no C library allocator call while a custom manager is supplied");
  (void)len; (void)got; (void)i; (void)en;
  return 0;
}
