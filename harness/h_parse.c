/* h_parse: N fully symbolic characters -> parser -> oracles G (grammar DFA) and S (component splitter).
 * Serves C01 C02 C03 C04 (and, through checks.h, C05 C07 C13 C14 C20 for parsed URIs). */
#include "common.h"
#include "mm.h"
#include "oracle_split.h"
#include "checks.h"
#ifdef GENTEXT
#include "gen.h"
#endif
#ifndef NMAX
#define NMAX 4
#endif
#ifndef NMIN
#define NMIN 0
#endif
#ifndef IP6_MAXG
#define IP6_MAXG 8      /* groups before / after the zipper: 0..IP6_MAXG in total */
#endif
#ifndef GENK
#define GENK 1
#endif
#ifndef GENL
#define GENL 1
#endif

int main(void){
  URI uri; const CH *errorPos = 0; int rc; long n, i;
  CH *buf;
#ifdef GENTEXT
  /* shape-bounded text over the FULL character classes (compile with -DGEN_WIDE_CHARS): longer, structured inputs than raw N characters reach */
  { CH tmp[GEN_CAP(2, 2) + 8]; n = gen_uri(tmp, GENTEXT, GENK, GENL, "g"); buf = uk_buf((size_t)n * sizeof(CH), "text"); for (i = 0; i < n; i++) buf[i] = tmp[i]; }
#elif defined(IP6GEN)
  /* shape-bounded IPv6 literal "//[" ... "]": group layout, zipper position, optional IPv4 tail are skeleton choices (valid AND
     invalid layouts); plain groups are one symbolic letter a..f; one "wide" group has 1..5 symbolic decimal (IP6_WIDE_HEX: hex, both cases) digits; one IPv4 octet
     has 1..4 symbolic digits.  Reaches the quad / zipper / octet counters that raw N-character exploration cannot. */
  { CH tmp[80]; long k = 0; int before = uk_choice(IP6_MAXG + 1, "groupsBefore"), zip = uk_choice(2, "zipper"), after = zip ? uk_choice(IP6_MAXG + 1 - before, "groupsAfter") : 0;
    int v4 = uk_choice(2, "ipv4tail"), ng = before + after, g, wide = -1, wlen = 1, oct = -1, olen = 1, noct = 4;
    tmp[k++] = '/'; tmp[k++] = '/'; tmp[k++] = '[';
    if (!v4 && ng > 0){ wide = uk_choice(ng, "wideGroup"); wlen = 1 + uk_choice(5, "wideLen"); }
    if (v4){ oct = uk_choice(4, "bigOctet"); olen = 1 + uk_choice(4, "octetLen"); noct = 3 + uk_choice(3, "octets"); }
    for (g = 0; g < ng; g++){
      int len = (g == wide) ? wlen : 1, d;
      if (g == before && zip){ tmp[k++] = ':'; tmp[k++] = ':'; } else if (g > 0) tmp[k++] = ':';
      for (d = 0; d < len; d++){ CH c; SYM_TEXT(&c, 1, "h"); 
#ifdef IP6_WIDE_HEX
        if (g == wide) uk_assume((CHV(c) >= '0' && CHV(c) <= '9') || (CHV(c) >= 'a' && CHV(c) <= 'f') || (CHV(c) >= 'A' && CHV(c) <= 'F')); else
#endif
        uk_assume(CHV(c) >= 'a' && CHV(c) <= 'f');   /* groups: lowercase hex letters (the wide group too unless IP6_WIDE_HEX) */ tmp[k++] = c; }
    }
    if (zip && before == ng){ tmp[k++] = ':'; tmp[k++] = ':'; }
    if (v4){
      if (ng > 0 && !(zip && before == ng)) tmp[k++] = ':';
      for (g = 0; g < noct; g++){ int len = (g == oct) ? olen : 1, d; if (g > 0) tmp[k++] = '.';
        for (d = 0; d < len; d++){ CH c; SYM_TEXT(&c, 1, "d"); if (g == oct) uk_assume(CHV(c) >= '0' && CHV(c) <= '9'); else uk_assume(CHV(c) >= '3' && CHV(c) <= '9'); tmp[k++] = c; } }   /* the other octets: one digit 3..9 */
    }
    tmp[k++] = ']';
    n = k; buf = uk_buf((size_t)n * sizeof(CH), "text"); for (i = 0; i < n; i++) buf[i] = tmp[i];
  }
#elif defined(PREFIX)
  /* concrete prefix followed by symbolic characters (deep IPv6 literals) */
  static const char pre[] = PREFIX; long np = (long)sizeof pre - 1;
  n = np + NMIN + uk_choice(NMAX - NMIN + 1, "len");
  buf = uk_buf((size_t)n * sizeof(CH), "text");
  for (i = 0; i < np; i++) buf[i] = (CH)pre[i];
  SYM_TEXT(buf + np, (size_t)(n - np), "t");
#elif defined(MID)
  /* range in the middle of a larger buffer with arbitrary surrounding characters */
  CH *big; n = NMIN + uk_choice(NMAX - NMIN + 1, "len");
  big = uk_buf((size_t)(n + 4) * sizeof(CH), "bigtext");
  SYM_TEXT(big, (size_t)(n + 4), "t");
  buf = big + 2; uk_watch(buf, (size_t)n * sizeof(CH));
#else
  n = NMIN + uk_choice(NMAX - NMIN + 1, "len");
  buf = uk_buf((size_t)n * sizeof(CH), "text");
  SYM_TEXT(buf, (size_t)n, "t");
#endif
  uk_readonly(buf, (size_t)n * sizeof(CH));

  mm_armed = 1;
  rc = U(uriParseSingleUriExMm)(&uri, buf, buf + n, &errorPos, &mm);
  mm_armed = 0;

  /* ---- oracle G */
  { int s = 0, accepts; long deadpos = -1, lit_open = -1, dead_lit_open = -1; int dead_in_lit = 0;
    for (i = 0; i < n; i++){
      int s2 = dfa_uriref_step(s, CHV(buf[i]));
      if (s2 == DFA_URIREF_DEAD){ deadpos = i; dead_in_lit = dfa_uriref_inlit[s]; dead_lit_open = lit_open; break; }
      if (!dfa_uriref_inlit[s] && dfa_uriref_inlit[s2]) lit_open = i;
      s = s2;
    }
    accepts = deadpos < 0 && dfa_uriref_accept[s];
#ifdef FAILING
    if (mm_failed){
      uk_assert(rc == URI_ERROR_MALLOC || rc == URI_ERROR_SYNTAX, "C14: parse with a failed allocation returns the out-of-memory code (or syntax error found earlier)");
      if (rc == URI_ERROR_SYNTAX) uk_cover("failed-alloc-then-syntax-error");
      uk_assert(rc != URI_SUCCESS, "C14: parse does not report success after a failed allocation");
      uk_assert(uk_live() == 0, "C14: nothing stays allocated after a parse that hit a failed allocation");
      U(uriFreeUriMembersMm)(&uri, &mm); U(uriFreeUriMembersMm)(&uri, &mm);
      uk_assert(uk_live() == 0, "C14: freeing after failed parse");
      uk_cover("alloc-failure-injected");
      return 0;
    }
#endif
#ifdef P_C01
    uk_assert((rc == URI_SUCCESS) == (accepts != 0), "C01: parse succeeds iff the text matches URI-reference");
    if (rc != URI_SUCCESS){
      long e;
      uk_assert(rc == URI_ERROR_SYNTAX, "C01: rejected text is reported with URI_ERROR_SYNTAX");
      uk_assert(errorPos != 0, "C01: errorPos is non-NULL on syntax error");
      if (errorPos == 0) return 0;
      e = (long)(errorPos - buf);
      uk_assert(e >= 0 && e <= n, "C01: errorPos lies inside [first, afterLast]");
      if (deadpos < 0) uk_assert(e == n, "C01: incomplete text is reported at the end of input");
      else if (!dead_in_lit) uk_assert(e == deadpos, "C01: errorPos is the first character with no valid completion");
      else {
        long close = n;   /* literal extends to its ']' or to the end of input */
        long j; for (j = dead_lit_open + 1; j < n; j++) if (CHV(buf[j]) == ']'){ close = j; break; }
        uk_assert(e >= dead_lit_open && e <= (close < n ? close + 1 : n), "C01: errorPos for an error inside an IP literal lies within that literal");
      }
    }
#endif
    if (accepts) uk_cover("accepted");
    else if (deadpos < 0) uk_cover("rejected-incomplete");
    else if (!dead_in_lit) uk_cover("rejected-at-deadpos");
    else uk_cover("rejected-inside-ip-literal");
    (void)dead_lit_open;
  }
  if (rc != URI_SUCCESS){
#ifdef P_C03
    uk_assert(uk_live() == 0, "C03: nothing stays allocated after a failed parse");
    U(uriFreeUriMembersMm)(&uri, &mm); U(uriFreeUriMembersMm)(&uri, &mm);
    uk_assert(uk_live() == 0, "C03: freeing the output of a failed parse (twice) is harmless");
#endif
    return 0;
  }

  /* ---- accepted: oracle S */
  { os_split_t o; os_split(buf, n, &o);
#if defined(P_C02) || defined(P_C03)
    chk_components(&uri, buf, n, &o);
#endif
#ifdef P_C04
    chk_recompose_equals_input(&uri, buf, n, &o);
#endif
#ifdef P_C05
    chk_tostring_contract(&uri);
#endif
#ifdef P_C07
    chk_reparse_stable(&uri);
#endif
    if (o.hostkind == HK_IP6) uk_cover("host-ip6");
    if (o.hostkind == HK_IP4) uk_cover("host-ip4");
    if (o.hostkind == HK_FUTURE) uk_cover("host-ipfuture");
    if (o.hostkind == HK_REGNAME) uk_cover("host-regname");
    if (o.sch_a >= 0) uk_cover("has-scheme");
    if (o.nseg > 1) uk_cover("multi-segment");
  }
  U(uriFreeUriMembersMm)(&uri, &mm);
  uk_assert(uk_live() == 0, "C13: all blocks returned after uriFreeUriMembersMm");
  U(uriFreeUriMembersMm)(&uri, &mm); U(uriFreeUriMembersMm)(&uri, &mm);
  uk_assert(uk_libc_calls() == 0, "C13: no C library allocator call while a custom manager is supplied");
  return 0;
}
