/* h_query: query list compose / dissect.  Serves C17 (and C13/C14 for the query functions).
 * MODE_RT: list -> chars required -> compose (symbolic capacity) -> dissect -> same list.   MODE_DISSECT: arbitrary text -> dissect vs reference.
 * MODE_ARITH: size arithmetic with strlen stubbed to an arbitrary size_t. */
#include "common.h"
#include "mm.h"
#include "oracle_dfa.h"
#include "oracle_escape.h"
#ifndef ITEMS
#define ITEMS 2
#endif
#ifndef SEGL
#define SEGL 1
#endif
#ifndef NMAX
#define NMAX 4
#endif

#ifdef MODE_ARITH
size_t strlen(const char *s){ (void)s; return (size_t)uk_sym_long("strlen"); }
size_t wcslen(const wchar_t *s){ (void)s; return (size_t)uk_sym_long("wcslen"); }
int main(void){
  static const CH one[2] = { 'k', 0 }; QLIST it[ITEMS]; int i, req = -1, rc, nb = uk_choice(2, "normalizeBreaks");
  for (i = 0; i < ITEMS; i++){ it[i].key = one; it[i].value = uk_choice(2, "hasValue") ? one : 0; it[i].next = i + 1 < ITEMS ? &it[i + 1] : 0; }
  rc = U(uriComposeQueryCharsRequiredEx)(it, &req, URI_TRUE, nb ? URI_TRUE : URI_FALSE);
  uk_assert(rc == URI_SUCCESS || rc == URI_ERROR_OUTPUT_TOO_LARGE, "C17: chars-required either succeeds or refuses with URI_ERROR_OUTPUT_TOO_LARGE");
  if (rc == URI_SUCCESS) uk_assert(req >= 0, "C17: a successful size computation did not wrap");
  if (rc == URI_SUCCESS) uk_cover("size-computed"); else uk_cover("size-refused");
  return 0;
}
#elif defined(MODE_DISSECT)
int main(void){
  long n = uk_choice(NMAX + 1, "len"), i; int p2s = uk_choice(2, "plusToSpace"), br = uk_choice(4, "breakConversion"), cnt = -7, rc, k = 0;
  CH *t = uk_buf((size_t)n * sizeof(CH), "query"); QLIST *list = 0, *w; unsigned long cin[NMAX + 1];
  SYM_TEXT(t, (size_t)n, "t");
  for (i = 0; i < n; i++){ uk_assume(CHV(t[i]) >= 1 && CHV(t[i]) <= 255); cin[i] = CHV(t[i]); }
  uk_readonly(t, (size_t)n * sizeof(CH)); uk_note_text("query", t, n, sizeof(CH));
  mm_armed = 1;
  rc = U(uriDissectQueryMallocExMm)(&list, &cnt, t, t + n, p2s ? URI_TRUE : URI_FALSE, br == 0 ? URI_BR_TO_LF : br == 1 ? URI_BR_TO_CRLF : br == 2 ? URI_BR_TO_CR : URI_BR_DONT_TOUCH, &mm);
  mm_armed = 0;
#ifdef FAILING
  if (mm_failed){
    uk_assert(rc == URI_ERROR_MALLOC, "C14: dissecting with a failed allocation returns URI_ERROR_MALLOC");
    uk_assert(uk_live() == 0, "C14: nothing stays allocated after a failed dissection");
    uk_assert(cnt == 0, "C14: item count reset after a failed dissection");
    uk_cover("alloc-failure-injected"); return 0;
  }
#endif
  uk_assert(rc == URI_SUCCESS, "C17: dissecting succeeds");
  if (rc) return 0;
  /* reference: pieces between '&'; first '=' separates key and value; pieces with empty key and no value vanish */
  { long a = 0, b; w = list;
    for (b = 0; b <= n; b++) if (b == n || cin[b] == '&'){
      long eq = -1, j; unsigned long kx[2 * NMAX + 2], vx[2 * NMAX + 2]; long kn, vn = -1;
      for (j = a; j < b; j++) if (cin[j] == '=' && eq < 0) eq = j;
      kn = oe_unescape(cin + a, (eq >= 0 ? eq : b) - a, kx, p2s, br);
      if (eq >= 0) vn = oe_unescape(cin + eq + 1, b - eq - 1, vx, p2s, br);
      if (!((eq >= 0 ? eq : b) == a && eq < 0)){
        uk_assert(w != 0, "C17: every non-empty piece yields a list item");
        if (!w) return 0;
        for (j = 0; j < kn; j++) uk_assert(CHV(w->key[j]) == kx[j], "C17: key equals the reference decoding");
        uk_assert(w->key[kn] == 0, "C17: key has the reference length");
        if (vn < 0) uk_assert(w->value == 0, "C17: a piece without '=' has a NULL value");
        else { uk_assert(w->value != 0, "C17: a piece with '=' has a non-NULL value");
               if (w->value){ for (j = 0; j < vn; j++) uk_assert(CHV(w->value[j]) == vx[j], "C17: value equals the reference decoding"); uk_assert(w->value[vn] == 0, "C17: value has the reference length"); } }
        w = w->next; k++;
      }
      a = b + 1;
    }
    uk_assert(w == 0, "C17: no extra list items");
    uk_assert(cnt == k, "C17: itemCount equals the list length");
  }
  if (k > 1) uk_cover("several-items"); if (k == 0) uk_cover("no-items");
  U(uriFreeQueryListMm)(list, &mm);
  uk_assert(uk_live() == 0, "C13: query list fully released"); uk_assert(uk_libc_calls() == 0, "C13: no C library allocator call while a custom manager is supplied");
  return 0;
}
#else
int main(void){
  QLIST it[ITEMS]; CH ks[ITEMS][SEGL + 1], vs[ITEMS][SEGL + 1]; int ni = 1 + uk_choice(ITEMS, "items"), i, j, req = -1, rc, wr = -7, maxc;
  int s2p = uk_choice(2, "spaceToPlus"), nb = uk_choice(2, "normalizeBreaks"), kept = 0; CH *dest; long len;
  for (i = 0; i < ni; i++){
    int kl = uk_choice(SEGL + 1, "keylen"), hv = uk_choice(2, "hasValue"), vl = hv ? uk_choice(SEGL + 1, "vallen") : 0;
    for (j = 0; j < kl; j++){ CH c; SYM_TEXT(&c, 1, "k"); uk_assume(CHV(c) >= 1 && CHV(c) <= 255); ks[i][j] = c; } ks[i][kl] = 0;
    for (j = 0; j < vl; j++){ CH c; SYM_TEXT(&c, 1, "v"); uk_assume(CHV(c) >= 1 && CHV(c) <= 255); vs[i][j] = c; } vs[i][vl] = 0;
    it[i].key = ks[i]; it[i].value = hv ? vs[i] : 0; it[i].next = i + 1 < ni ? &it[i + 1] : 0;
    if (!(kl == 0 && !hv)) kept++;
  }
  rc = U(uriComposeQueryCharsRequiredEx)(it, &req, s2p ? URI_TRUE : URI_FALSE, nb ? URI_TRUE : URI_FALSE);
  uk_assert(rc == URI_SUCCESS && req >= 0, "C17: chars-required succeeds for small lists");
  dest = uk_buf((size_t)(req + 2) * sizeof(CH), "dest");
  for (j = 0; j < req + 2; j++) dest[j] = (CH)0x7e;
  maxc = uk_sym_int("maxChars"); uk_assume(maxc <= req + 2);
  uk_limit(dest, maxc, (int)sizeof(CH));
  rc = U(uriComposeQueryEx)(dest, it, maxc, &wr, s2p ? URI_TRUE : URI_FALSE, nb ? URI_TRUE : URI_FALSE);
  uk_unlimit(dest);
  uk_assert(rc == URI_SUCCESS || rc == URI_ERROR_OUTPUT_TOO_LARGE, "C17: compose succeeds or refuses with URI_ERROR_OUTPUT_TOO_LARGE");
  if (maxc >= req + 1) uk_assert(rc == URI_SUCCESS, "C17: the chars-required figure is sufficient for composing to succeed");
  if (rc != URI_SUCCESS){ uk_cover("too-large"); return 0; }
  uk_assert(wr >= 1 && wr <= maxc, "C17: charsWritten within capacity");
  uk_assert(dest[wr - 1] == 0, "C17: charsWritten is the text length plus one (terminator position)");
  len = wr - 1;
  { int s = 0; for (j = 0; j < len; j++){ uk_assert(dest[j] != 0, "C17: no NUL inside the composed text"); s = dfa_query_step(s, CHV(dest[j])); }
    uk_assert(dfa_query_accept[s], "C17: composed text consists of characters legal in a URI query"); }
  /* dissect with matching options */
  { QLIST *list = 0, *w; int cnt = -7, k;
    rc = U(uriDissectQueryMallocExMm)(&list, &cnt, dest, dest + len, s2p ? URI_TRUE : URI_FALSE, URI_BR_DONT_TOUCH, &mm);
    uk_assert(rc == URI_SUCCESS, "C17: dissecting the composed text succeeds");
    if (rc) return 0;
    uk_assert(cnt == kept, "C17: item count equals the list length minus (empty key, no value) items");
    w = list;
    for (i = 0; i < ni; i++){
      unsigned long a[SEGL + 1], e[2 * SEGL + 2]; long en, al;
      if (it[i].key[0] == 0 && it[i].value == 0) continue;
      uk_assert(w != 0, "C17: every kept item comes back"); if (!w) return 0;
      for (al = 0; it[i].key[al]; al++) a[al] = CHV(it[i].key[al]);
      if (nb) en = oe_breaks_to_crlf(a, al, e); else { en = al; for (k = 0; k < al; k++) e[k] = a[k]; }
      for (k = 0; k < en; k++) uk_assert(CHV(w->key[k]) == e[k], "C17: key comes back unchanged (line breaks as CR LF if normalised)");
      uk_assert(w->key[en] == 0, "C17: key comes back with the same length");
      uk_assert((w->value == 0) == (it[i].value == 0), "C17: NULL versus present value is preserved");
      if (w->value && it[i].value){
        for (al = 0; it[i].value[al]; al++) a[al] = CHV(it[i].value[al]);
        if (nb) en = oe_breaks_to_crlf(a, al, e); else { en = al; for (k = 0; k < al; k++) e[k] = a[k]; }
        for (k = 0; k < en; k++) uk_assert(CHV(w->value[k]) == e[k], "C17: value comes back unchanged");
        uk_assert(w->value[en] == 0, "C17: value comes back with the same length");
      }
      w = w->next;
    }
    uk_assert(w == 0, "C17: no extra items");
    U(uriFreeQueryListMm)(list, &mm);
  }
  /* the malloc variant: one block from the supplied manager, released by the caller */
  { CH *str = 0; rc = U(uriComposeQueryMallocExMm)(&str, it, s2p ? URI_TRUE : URI_FALSE, nb ? URI_TRUE : URI_FALSE, &mm);
    uk_assert(rc == URI_SUCCESS && str != 0, "C17: uriComposeQueryMallocExMm succeeds");
    if (str){ for (j = 0; j <= len; j++) uk_assert(str[j] == dest[j], "C17: the malloc variant composes the same text"); uk_assert(uk_live() == 1, "C13: exactly the returned string is outstanding"); mm.free(&mm, str); } }
  uk_cover("round-trip");
  uk_assert(uk_live() == 0, "C13: query list and composed string fully released");
  uk_assert(uk_libc_calls() == 0, "C13: no C library allocator call while a custom manager is supplied");
  return 0;
}
#endif
