/* h_normres: C09 -- normalising a reference must not change what it identifies:
 * normalize(resolve(normalize(R), B)) == normalize(resolve(R, B)) for every reference R and absolute base B. */
#include "common.h"
#include "mm.h"
#include "oracle_norm.h"
#include "checks.h"
#include "gen.h"
#ifndef KB
#define KB 2
#endif
#ifndef KR
#define KR 3
#endif
#ifndef SEGL
#define SEGL 2
#endif
#ifndef BFLAGS
#define BFLAGS (G_SCHEME_REQ | G_AUTH)
#endif
#ifndef RFLAGS
#define RFLAGS (G_SCHEME_OPT | G_AUTH)
#endif
#define CAP (GEN_CAP(KB, SEGL) + GEN_CAP(KR, SEGL) + 8)
static CH *exact(const CH *src, long n, const char *name){ CH *p = uk_buf((size_t)n * sizeof(CH), name); long i; for (i = 0; i < n; i++) p[i] = src[i]; uk_readonly(p, (size_t)n * sizeof(CH)); return p; }
int main(void){
  CH tb[CAP], tr[CAP], e1[3 * CAP], t1[3 * CAP], t2[3 * CAP]; CH *bt, *rt; long bn, rn, i; URI B, R1, R2, T1, T2; const CH *ep = 0; int rc, l1 = 0, l2 = 0; CH *g1, *g2; os_split_t rs;
#ifdef BASE_FIXED
  /* constant base text (e.g. a deep one); KB only sizes the buffers */
  { static const char fixed[] = BASE_FIXED; for (bn = 0; fixed[bn]; bn++) tb[bn] = (CH)fixed[bn]; }
  bt = exact(tb, bn, "base");
#else
  bn = gen_uri(tb, BFLAGS, KB, SEGL, "b"); bt = exact(tb, bn, "base");
#endif
  rn = gen_uri(tr, RFLAGS, KR, SEGL, "r"); rt = exact(tr, rn, "ref");
  uk_note_text("base", bt, bn, sizeof(CH)); uk_note_text("ref", rt, rn, sizeof(CH));
  if (U(uriParseSingleUriExMm)(&B, bt, bt + bn, &ep, &mm) != URI_SUCCESS){ uk_assume(0); return 0; }
  if (U(uriParseSingleUriExMm)(&R1, rt, rt + rn, &ep, &mm) != URI_SUCCESS){ uk_assume(0); return 0; }
  if (U(uriParseSingleUriExMm)(&R2, rt, rt + rn, &ep, &mm) != URI_SUCCESS){ uk_assume(0); return 0; }
  os_split(rt, rn, &rs);
  (void)on_normalize(rt, rn, &rs, 63u, e1, t1, t2);
  { int kf = 0;
#ifdef KF_NORM_DSLASH
    if (on_unspecified & ON_CLS_DSLASH) kf = 1;
#endif
#ifdef KF_NORM_COLON
    if (on_unspecified & ON_CLS_COLON) kf = 1;
#endif
#ifdef KF_NORM_EMPTY
    if (on_unspecified & ON_CLS_EMPTY) kf = 1;
#endif
#ifdef KF_NORM_ABS
    if (on_unspecified & ON_CLS_ABS) kf = 1;
#endif
    if (kf){ uk_cover("known-finding-class"); uk_exit(); }
  }
  rc = U(uriNormalizeSyntaxExMm)(&R1, (unsigned)-1, &mm); uk_assert(rc == URI_SUCCESS, "C09: normalising the reference succeeds");
  ro_uri(&B);
  rc = U(uriAddBaseUriExMm)(&T1, &R1, &B, URI_RESOLVE_STRICTLY, &mm); uk_assert(rc == URI_SUCCESS, "C09: resolving the normalised reference succeeds");
  if (rc) uk_exit();
  rc = U(uriAddBaseUriExMm)(&T2, &R2, &B, URI_RESOLVE_STRICTLY, &mm); uk_assert(rc == URI_SUCCESS, "C09: resolving the reference succeeds");
  if (rc) uk_exit();
  rw_uri(&B);
  rc = U(uriNormalizeSyntaxExMm)(&T1, (unsigned)-1, &mm); uk_assert(rc == URI_SUCCESS, "C09: normalising target 1 succeeds");
  rc = U(uriNormalizeSyntaxExMm)(&T2, (unsigned)-1, &mm); uk_assert(rc == URI_SUCCESS, "C09: normalising target 2 succeeds");
  g1 = recompose(&T1, &l1); g2 = recompose(&T2, &l2);
  uk_note_text("via-normalised-ref", g1, l1, sizeof(CH)); uk_note_text("via-original-ref", g2, l2, sizeof(CH));
  uk_assert(l1 == l2, "C09: normalize(resolve(normalize(R),B)) equals normalize(resolve(R,B)) (length)");
  if (l1 == l2) for (i = 0; i < l1; i++) uk_assert(g1[i] == g2[i], "C09: normalize(resolve(normalize(R),B)) equals normalize(resolve(R,B))");
  uk_assert(U(uriEqualsUri)(&T1, &T2) == URI_TRUE, "C09: both targets compare equal");
  { int teq = (l1 == l2); if (teq) for (i = 0; i < l1; i++) if (g1[i] != g2[i]){ teq = 0; break; }
    uk_assert((U(uriEqualsUri)(&T1, &T2) == URI_TRUE) == teq, "C11: URIs produced by resolution and normalisation are equal exactly when their recomposed texts are identical");
    uk_assert(U(uriEqualsUri)(&T1, &T2) == U(uriEqualsUri)(&T2, &T1), "C11: equality of produced URIs is symmetric"); }
#ifdef P_C07
  chk_reparse_stable(&T1); chk_reparse_stable(&T2);
#endif
  if (rs.sch_a >= 0) uk_cover("ref-absolute"); else if (rs.has_auth) uk_cover("ref-network-path"); else if (rs.abs_path) uk_cover("ref-absolute-path"); else uk_cover("ref-relative-path");
  U(uriFreeUriMembersMm)(&T1, &mm); U(uriFreeUriMembersMm)(&T2, &mm); U(uriFreeUriMembersMm)(&R1, &mm); U(uriFreeUriMembersMm)(&R2, &mm); U(uriFreeUriMembersMm)(&B, &mm);
  uk_assert(uk_live() == 0, "C13: all blocks returned");
  return 0;
}
