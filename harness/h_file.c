/* h_file: filename <-> URI string conversions within the documented buffer sizes.  Serves C18. */
#include "common.h"
#include "mm.h"
#ifndef NMAX
#define NMAX 4
#endif
static long slen(const CH *s){ long n = 0; while (s[n]) n++; return n; }
static int has_prefix(const CH *s, const char *p){ while (*p){ if (CHV(*s) != (unsigned long)(unsigned char)*p) return 0; s++; p++; } return 1; }
static int is_alpha(unsigned long c){ return (c >= 'a' && c <= 'z') || (c >= 'A' && c <= 'Z'); }

int main(void){
#ifdef SHORTFORMS
  /* short forms accepted on input: file:/x  and  file:c:/x */
  { static const CH u1[] = { 'f','i','l','e',':','/','x','y',0 }, u2[] = { 'f','i','l','e',':','c',':','/','x',0 };
    CH *o1 = uk_buf(4 * sizeof(CH), "unixname"), *o2 = uk_buf(5 * sizeof(CH), "winname");
    uk_assert(U(uriUriStringToUnixFilename)(u1, o1) == URI_SUCCESS && CHV(o1[0]) == '/' && CHV(o1[1]) == 'x' && CHV(o1[2]) == 'y' && o1[3] == 0, "C18: short form file:/x is accepted for Unix names");
    uk_assert(U(uriUriStringToWindowsFilename)(u2, o2) == URI_SUCCESS && CHV(o2[0]) == 'c' && CHV(o2[1]) == ':' && CHV(o2[2]) == '\\' && CHV(o2[3]) == 'x' && o2[4] == 0, "C18: short form file:c:/x is accepted for Windows names");
    uk_cover("short-forms"); return 0; }
#else
  long n = uk_choice(NMAX + 1, "len"), i, ul; int win = uk_choice(2, "windows"), absolute, unc = 0, rc; CH *name, *uri, *back; URI u; const CH *ep = 0;
  name = uk_buf((size_t)(n + 1) * sizeof(CH), "filename");
  SYM_TEXT(name, (size_t)n, "t"); name[n] = 0;
  for (i = 0; i < n; i++) uk_assume(CHV(name[i]) >= 1 && CHV(name[i]) <= 255);
  uk_note_text("filename", name, n, sizeof(CH));
  if (!win) absolute = n > 0 && CHV(name[0]) == '/';
  else {
    for (i = 0; i < n; i++) uk_assume(CHV(name[i]) != '/');                   /* backslash separators only */
    unc = n >= 2 && CHV(name[0]) == '\\' && CHV(name[1]) == '\\';
    if (unc){ uk_assume(n >= 3 && CHV(name[2]) != '\\'); absolute = 1; }        /* UNC with a non-empty server name */
    else if (n >= 2 && CHV(name[1]) == ':'){ uk_assume(is_alpha(CHV(name[0])) && n >= 3 && CHV(name[2]) == '\\'); absolute = 1; }   /* drive-absolute */
    else { absolute = 0; }
  }
  uk_readonly(name, (size_t)(n + 1) * sizeof(CH));
  uri = uk_buf((size_t)((absolute ? (win ? 8 : 7) : 0) + 3 * n + 1) * sizeof(CH), "uriString");   /* documented size, exactly */
  rc = win ? U(uriWindowsFilenameToUriString)(name, uri) : U(uriUnixFilenameToUriString)(name, uri);
  uk_assert(rc == URI_SUCCESS, "C18: filename to URI string succeeds");
  ul = slen(uri);
  uk_note_text("uriString", uri, ul, sizeof(CH));
  /* valid RFC 3986 reference of the documented form */
  rc = U(uriParseSingleUriExMm)(&u, uri, uri + ul, &ep, &mm);
  uk_assert(rc == URI_SUCCESS, "C18: the produced URI string is a valid URI reference");
  if (rc == URI_SUCCESS){
    if (absolute){
      uk_assert(u.scheme.first != 0 && u.scheme.afterLast - u.scheme.first == 4 && has_prefix(uri, "file:"), "C18: absolute names give a file: URI");
      if (!win) uk_assert(has_prefix(uri, "file:///"), "C18: absolute Unix names give file:///...");
      else if (unc) uk_assert(has_prefix(uri, "file://") && u.hostText.first != 0 && u.hostText.afterLast > u.hostText.first, "C18: UNC names give file://server/share");
      else uk_assert(has_prefix(uri, "file:///") && CHV(uri[9]) == ':', "C18: drive-absolute names give file:///C:/...");
    } else uk_assert(u.scheme.first == 0 && u.hostText.first == 0, "C18: relative names give a relative reference");
    U(uriFreeUriMembersMm)(&u, &mm);
  }
  /* back */
  back = uk_buf((size_t)(absolute ? ul + 1 - 5 : ul + 1) * sizeof(CH), "filenameBack");             /* documented size */
  rc = win ? U(uriUriStringToWindowsFilename)(uri, back) : U(uriUriStringToUnixFilename)(uri, back);
  uk_assert(rc == URI_SUCCESS, "C18: URI string to filename succeeds");
  { long bl = slen(back);
    uk_assert(bl == n, "C18: converting back gives a filename of the original length");
    if (bl == n) for (i = 0; i < n; i++) uk_assert(CHV(back[i]) == CHV(name[i]), "C18: converting back gives the original filename"); }
  if (absolute) uk_cover(win ? (unc ? "win-unc" : "win-drive") : "unix-absolute"); else uk_cover(win ? "win-relative" : "unix-relative");
  uk_assert(uk_live() == 0, "C13: nothing left allocated");
  return 0;
#endif
}
