/* Shared checkers used at the end of every URI-producing harness. */
#ifndef CHECKS_H
#define CHECKS_H
#include "common.h"
#include "mm.h"
#include "oracle_split.h"

static int rng_absent(const RANGE *r){ return r->first == 0 && r->afterLast == 0; }
static long rng_len(const RANGE *r){ return r->first ? (long)(r->afterLast - r->first) : -1; }

/* text equality of two ranges, NULL-ness included; characters may be symbolic */
static int rng_text_eq(const RANGE *a, const RANGE *b){
  long n, i;
  if ((a->first == 0) != (b->first == 0)) return 0;
  if (a->first == 0) return 1;
  n = (long)(a->afterLast - a->first);
  if (n != (long)(b->afterLast - b->first)) return 0;
  for (i = 0; i < n; i++) if (a->first[i] != b->first[i]) return 0;
  return 1;
}
static int host_kind(const URI *u){
  if (u->hostData.ip4) return 2;
  if (u->hostData.ip6) return 3;
  if (u->hostData.ipFuture.first) return 4;
  if (u->hostText.first) return 1;
  return 0;
}
static int host_set(const URI *u){
  return u->hostText.first != 0 || u->hostData.ip4 != 0 || u->hostData.ip6 != 0 || u->hostData.ipFuture.first != 0;
}

/* mark a URI handed to the library as a const argument read-only, including its segment nodes and IP data */
static void ro_uri(const URI *u){
  const SEG *s; uk_readonly(u, sizeof *u);
  for (s = u->pathHead; s; s = s->next) uk_readonly(s, sizeof *s);
  if (u->hostData.ip4) uk_readonly(u->hostData.ip4, sizeof *u->hostData.ip4);
  if (u->hostData.ip6) uk_readonly(u->hostData.ip6, sizeof *u->hostData.ip6);
}
static void rw_uri(const URI *u){
  const SEG *s; uk_writable(u);
  for (s = u->pathHead; s; s = s->next) uk_writable(s);
  if (u->hostData.ip4) uk_writable(u->hostData.ip4);
  if (u->hostData.ip6) uk_writable(u->hostData.ip6);
}

/* ---- structural invariant INV (DESIGN.md section 8) */
#ifndef INV_MAXSEG
#define INV_MAXSEG 40
#endif
static void chk_range_shape(const RANGE *r, const char *msg){
  if (r->first == 0 || r->afterLast == 0) uk_assert(r->first == 0 && r->afterLast == 0, msg);
  else uk_assert(r->first <= r->afterLast, msg);
}
static void chk_inv(const URI *u){
  const SEG *s, *last = 0; int k = 0;
  uk_assert((u->pathHead == 0) == (u->pathTail == 0), "C07: pathHead and pathTail are both NULL or both set");
  for (s = u->pathHead; s && k <= INV_MAXSEG; s = s->next){ last = s; k++; chk_range_shape(&s->text, "C07: segment range is ordered and non-NULL");
    uk_assert(s->text.first != 0, "C07: a path segment has a non-NULL range"); }
  uk_assert(k <= INV_MAXSEG, "C07: path list is acyclic / bounded");
  uk_assert(last == u->pathTail, "C07: pathTail is the last node of the path list");
  chk_range_shape(&u->scheme, "C07: scheme range both NULL or ordered");
  chk_range_shape(&u->userInfo, "C07: userInfo range both NULL or ordered");
  chk_range_shape(&u->hostText, "C07: hostText range both NULL or ordered");
  chk_range_shape(&u->portText, "C07: portText range both NULL or ordered");
  chk_range_shape(&u->query, "C07: query range both NULL or ordered");
  chk_range_shape(&u->fragment, "C07: fragment range both NULL or ordered");
  chk_range_shape(&u->hostData.ipFuture, "C07: ipFuture range both NULL or ordered");
  if (host_set(u)) uk_assert(u->absolutePath == URI_FALSE, "C07: a host never coexists with the absolute-path flag");
  uk_assert((u->hostData.ip4 != 0) + (u->hostData.ip6 != 0) + (u->hostData.ipFuture.first != 0) <= 1, "C07: at most one host kind is set");
  if (u->hostData.ip4 || u->hostData.ip6 || u->hostData.ipFuture.first) uk_assert(u->hostText.first != 0, "C07: host data implies host text");
}

/* ---- C02/C03: components equal oracle S's sub-ranges */
static void chk_range_is(const RANGE *r, const CH *buf, long a, long b, const char *msg){
  if (a < 0) uk_assert(r->first == 0 && r->afterLast == 0, msg);
  else if (a == b) uk_assert(r->first != 0 && r->first == r->afterLast, msg);   /* present but empty (placeholder allowed) */
  else uk_assert(r->first == buf + a && r->afterLast == buf + b, msg);
}
static void chk_components(const URI *u, const CH *buf, long n, const os_split_t *o){
  const SEG *s; int k = 0; const SEG *last = 0; (void)n;
  chk_range_is(&u->scheme, buf, o->sch_a, o->sch_b, "C02: scheme is the grammar's scheme sub-range");
  chk_range_is(&u->userInfo, buf, o->ui_a, o->ui_b, "C02: user info is the grammar's userinfo sub-range");
  chk_range_is(&u->hostText, buf, o->host_a, o->host_b, "C02: host text is the grammar's host sub-range (without brackets)");
  chk_range_is(&u->portText, buf, o->port_a, o->port_b, "C02: port is the grammar's port sub-range");
  chk_range_is(&u->query, buf, o->q_a, o->q_b, "C02: query is the grammar's query sub-range");
  chk_range_is(&u->fragment, buf, o->f_a, o->f_b, "C02: fragment is the grammar's fragment sub-range");
  uk_assert(host_kind(u) == o->hostkind, "C02: host classified (IPv4 / IPv6 / IPvFuture / reg-name / none) as the grammar does");
  uk_assert((u->hostData.ip4 != 0) + (u->hostData.ip6 != 0) + (u->hostData.ipFuture.first != 0) <= 1, "C02: exactly one host kind");
  if (o->hostkind == HK_FUTURE) chk_range_is(&u->hostData.ipFuture, buf, o->host_a, o->host_b, "C02: ipFuture range equals host text");
  if (o->hostkind == HK_IP4 && u->hostData.ip4){ int i; for (i = 0; i < 4; i++) uk_assert(u->hostData.ip4->data[i] == o->ip[i], "C02: IPv4 bytes equal the value written in the text"); }
  if (o->hostkind == HK_IP6 && u->hostData.ip6){ int i; for (i = 0; i < 16; i++) uk_assert(u->hostData.ip6->data[i] == o->ip[i], "C02: IPv6 bytes equal the value written in the text"); }
  uk_assert((u->absolutePath != URI_FALSE) == (o->abs_path != 0), "C02: absolutePath set exactly for host-less paths beginning with '/'");
  uk_assert(u->absolutePath == URI_FALSE || u->absolutePath == URI_TRUE, "C02: absolutePath is a proper boolean");
  uk_assert(u->owner == URI_FALSE, "C02: a parsed URI does not own its text");
  for (s = u->pathHead; s && k < o->nseg + 2; s = s->next){
    if (k < o->nseg) chk_range_is(&s->text, buf, o->seg_a[k], o->seg_b[k], "C02: path segment is the grammar's segment sub-range");
    last = s; k++;
  }
  uk_assert(k == o->nseg, "C02: number of path segments equals the grammar's");
  uk_assert(u->pathTail == last, "C02: pathTail is the last node of the list");
  uk_assert((u->pathHead == 0) == (o->nseg == 0), "C02: pathHead NULL exactly when there is no segment");
}

/* ---- recomposition helpers */
static CH *recompose(const URI *u, int *len){
  int req = -1, wr = -1, rc; CH *out;
  rc = U(uriToStringCharsRequired)(u, &req);
  uk_assert(rc == URI_SUCCESS && req >= 0, "C05: uriToStringCharsRequired succeeds");
  out = uk_buf((size_t)(req + 1) * sizeof(CH), "recomposed");
  rc = U(uriToString)(out, u, req + 1, &wr);
  uk_assert(rc == URI_SUCCESS, "C05: uriToString succeeds with capacity charsRequired+1");
  uk_assert(wr == req + 1, "C05: charsWritten equals charsRequired+1");
  uk_assert(out[req] == 0, "C05: output is NUL-terminated at charsRequired");
  *len = req; return out;
}
static CH hexlow(unsigned v){ return (CH)(v < 10 ? '0' + v : 'a' + (v - 10)); }

/* ---- C04 */
static void chk_recompose_equals_input(URI *u, const CH *buf, long n, const os_split_t *o){
  int len = 0; long i; CH *out = recompose(u, &len); URI u2; const CH *ep = 0; int rc;
  if (o->hostkind != HK_IP6){
    uk_assert(len == n, "C04: recomposed length equals input length");
    if (len == n) for (i = 0; i < n; i++) uk_assert(out[i] == buf[i], "C04: recomposed text equals the input character for character");
  } else {
    long hl = o->host_b - o->host_a, d = 39 - hl;
    uk_assert(len == n + d, "C04: recomposed length with IPv6 literal in full form");
    if (len == n + d){
      for (i = 0; i < o->host_a; i++) uk_assert(out[i] == buf[i], "C04: text before the IPv6 literal is unchanged");
      for (i = 0; i < 8; i++){
        unsigned hi = o->ip[2 * i], lo = o->ip[2 * i + 1]; long p = o->host_a + 5 * i;
        uk_assert(out[p] == hexlow(hi >> 4) && out[p + 1] == hexlow(hi & 15) && out[p + 2] == hexlow(lo >> 4) && out[p + 3] == hexlow(lo & 15),
                  "C04: IPv6 literal written as eight groups of four lowercase hex digits denoting the same address");
        if (i < 7) uk_assert(out[p + 4] == ':', "C04: IPv6 groups separated by ':'");
      }
      for (i = o->host_b; i < n; i++) uk_assert(out[i + d] == buf[i], "C04: text after the IPv6 literal is unchanged");
    }
  }
  rc = U(uriParseSingleUriExMm)(&u2, out, out + len, &ep, &mm);
  uk_assert(rc == URI_SUCCESS, "C04: recomposed text parses again");
  if (rc == URI_SUCCESS){
    uk_assert(U(uriEqualsUri)(u, &u2) == URI_TRUE, "C04: second parse equals the first");
    U(uriFreeUriMembersMm)(&u2, &mm);
  }
#ifndef NO_OWNER_VARIANT
  /* owned URI recomposes identically */
  rc = U(uriMakeOwnerMm)(u, &mm);
  uk_assert(rc == URI_SUCCESS, "C04: uriMakeOwner succeeds");
  if (rc == URI_SUCCESS){
    int len2 = 0; CH *out2 = recompose(u, &len2);
    uk_assert(len2 == len, "C04: owned URI recomposes to the same length");
    if (len2 == len) for (i = 0; i < len; i++) uk_assert(out2[i] == out[i], "C04: owned URI recomposes to the same text");
  }
#endif
}

/* ---- C05: capacity contract of uriToString for every maxChars */
static void chk_tostring_contract(const URI *u){
  int req = -1, wr = -7, rc, maxc; CH *dest; long i;
  rc = U(uriToStringCharsRequired)(u, &req);
  uk_assert(rc == URI_SUCCESS && req >= 0, "C05: uriToStringCharsRequired succeeds");
  maxc = uk_sym_int("maxChars");
  dest = uk_buf((size_t)(req + 2) * sizeof(CH), "dest");
  for (i = 0; i < req + 2; i++) dest[i] = (CH)0x7e;
  uk_limit(dest, maxc, (int)sizeof(CH));
  if (uk_choice(2, "charsWrittenNull")){
    rc = U(uriToString)(dest, u, maxc, 0);
    uk_cover("tostring-charsWritten-NULL");
  } else {
    rc = U(uriToString)(dest, u, maxc, &wr);
    if (maxc >= req + 1) uk_assert(wr == req + 1, "C05: charsWritten is length+1 on success");
    else uk_assert(wr == 0, "C05: charsWritten is 0 on failure");
  }
  uk_unlimit(dest);
  if (maxc >= req + 1){
    uk_assert(rc == URI_SUCCESS, "C05: capacity >= length+1 succeeds");
    uk_assert(dest[req] == 0, "C05: text is NUL-terminated");
    for (i = 0; i < req; i++) uk_assert(dest[i] != 0, "C05: reported length is the length of the text (no earlier NUL)");
    uk_assert(dest[req + 1] == (CH)0x7e, "C05: nothing written past the terminator");
    uk_cover("tostring-fits");
  } else {
    uk_assert(rc == URI_ERROR_TOSTRING_TOO_LONG, "C05: smaller capacity fails with URI_ERROR_TOSTRING_TOO_LONG");
    if (maxc >= 1){ uk_assert(dest[0] == 0, "C05: failed write leaves an empty string when capacity >= 1"); uk_cover("tostring-too-long-cap>=1"); }
    else { uk_assert(dest[0] == (CH)0x7e, "C05: nothing written with capacity < 1"); uk_cover("tostring-cap<1"); }
  }
}

/* path text as recomposition defines it: '/' iff absolutePath or (host and segments); segments joined by '/' */
static long path_text(const URI *u, CH *dst){
  long n = 0; const SEG *s; const CH *p;
  if (u->absolutePath || (host_set(u) && u->pathHead)) dst[n++] = '/';
  for (s = u->pathHead; s; s = s->next){
    for (p = s->text.first; p < s->text.afterLast; p++) dst[n++] = *p;
    if (s->next) dst[n++] = '/';
  }
  return n;
}

/* ---- C07: written and read back, the URI keeps its meaning */
static void chk_reparse_stable(const URI *u){
  int len = 0, rc; CH *out; URI v; const CH *ep = 0;
  chk_inv(u);
  out = recompose(u, &len);
  rc = U(uriParseSingleUriExMm)(&v, out, out + len, &ep, &mm);
  uk_assert(rc == URI_SUCCESS, "C07: recomposed text is a valid URI reference");
  if (rc != URI_SUCCESS) return;
  uk_assert(rng_text_eq(&u->scheme, &v.scheme), "C07: same scheme when read back");
  uk_assert(host_set(u) == host_set(&v), "C07: same authority presence when read back");
  uk_assert(rng_text_eq(&u->userInfo, &v.userInfo), "C07: same user info when read back");
  uk_assert(rng_text_eq(&u->portText, &v.portText), "C07: same port when read back");
  if (u->hostData.ip6 && v.hostData.ip6){ int i; for (i = 0; i < 16; i++) uk_assert(u->hostData.ip6->data[i] == v.hostData.ip6->data[i], "C07: same IPv6 address when read back"); }
  else if (u->hostData.ip4 && v.hostData.ip4){ int i; for (i = 0; i < 4; i++) uk_assert(u->hostData.ip4->data[i] == v.hostData.ip4->data[i], "C07: same IPv4 address when read back"); }
  else uk_assert(rng_text_eq(&u->hostText, &v.hostText), "C07: same host when read back");
  uk_assert(host_kind(u) == host_kind(&v), "C07: same host kind when read back");
  { CH *p1 = uk_buf((size_t)(len + 2) * sizeof(CH), "path1"), *p2 = uk_buf((size_t)(len + 2) * sizeof(CH), "path2");
    long n1 = path_text(u, p1), n2 = path_text(&v, p2), i;
    uk_assert(n1 == n2, "C07: same path text when read back (length)");
    if (n1 == n2) for (i = 0; i < n1; i++) uk_assert(p1[i] == p2[i], "C07: same path text when read back");
  }
  uk_assert(rng_text_eq(&u->query, &v.query), "C07: same query when read back");
  uk_assert(rng_text_eq(&u->fragment, &v.fragment), "C07: same fragment when read back");
  U(uriFreeUriMembersMm)(&v, &mm);
}
#endif
