#include "mm.h"
#ifndef N
#define N 4
#endif
int main(void){
  UriUriA uri; const char *errorPos = 0; char *buf = uk_buf(N, "text");
  uk_sym_bytes(buf, N, "t");
  int r = uriParseSingleUriExMmA(&uri, buf, buf + N, &errorPos, &mm);
  if (r == 0) uriFreeUriMembersMmA(&uri, &mm);
  uk_assert(uk_live() == 0, "leak");
  return 0;
}
