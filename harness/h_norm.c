/* h_norm: shape-bounded text -> parser -> (optional uriMakeOwner) -> uriNormalizeSyntaxMaskRequired / uriNormalizeSyntaxExMm(mask)
 * against oracle N (RFC 3986 6.2.2 on strings).  Serves C08, C12 (source killed after normalisation), C09 (structure clauses), C07, C13. */
#include "common.h"
#include "mm.h"
#include "oracle_norm.h"
#include "checks.h"
#include "gen.h"
#ifndef KN
#define KN 2
#endif
#ifndef SEGL
#define SEGL 2
#endif
#ifndef NFLAGS
#define NFLAGS (G_SCHEME_OPT | G_AUTH | G_QUERY | G_FRAG | G_PCT)
#endif
#ifndef MASKS
#define MASKS 0, 1, 2, 4, 8, 16, 32, 63
#endif
#define CAP (GEN_CAP(KN, SEGL) + 8)

int main(void){
  CH tb[CAP], exp[3 * CAP], tmp[3 * CAP], tmp2[3 * CAP]; CH *t; long n, en, i; URI u; const CH *ep = 0; int rc, len = 0, owned, mode, kf; unsigned mask, m0, m0ex = 77; CH *got;
  os_split_t s;
  n = gen_uri(tb, NFLAGS, KN, SEGL, "u");
  t = uk_buf((size_t)n * sizeof(CH), "text"); for (i = 0; i < n; i++) t[i] = tb[i];
  uk_readonly(t, (size_t)n * sizeof(CH));
  uk_note_text("text", t, n, sizeof(CH));
  if (U(uriParseSingleUriExMm)(&u, t, t + n, &ep, &mm) != URI_SUCCESS){ uk_assume(0); return 0; }
  os_split(t, n, &s);
  owned = uk_choice(2, "owned");
  if (owned){ rc = U(uriMakeOwnerMm)(&u, &mm); uk_assert(rc == URI_SUCCESS, "C12: uriMakeOwner succeeds"); if (rc) return 0; }
  ro_uri(&u);
  m0 = U(uriNormalizeSyntaxMaskRequired)(&u);
  rc = U(uriNormalizeSyntaxMaskRequiredEx)(&u, &m0ex);
  rw_uri(&u);
  uk_assert(rc == URI_SUCCESS && m0ex == m0, "C08: uriNormalizeSyntaxMaskRequiredEx agrees with uriNormalizeSyntaxMaskRequired");
  uk_assert((m0 & ~63u) == 0, "C08: required mask only contains component bits");
#ifdef FULLMASK
  mode = uk_choice(2, "mode");
  if (mode == 0){ unsigned char mb; uk_sym_bytes(&mb, 1, "mask"); uk_assume(mb < 64); mask = mb; } else mask = m0;
#else
  { static const unsigned masks[] = { MASKS }; int nm = (int)(sizeof masks / sizeof masks[0]); int k = uk_choice(nm + 1, "maskidx");
    if (k == nm){ mode = 1; mask = m0; } else { mode = 0; mask = masks[k]; } }
#endif
  uk_note("mask", (long)mask); uk_note("m0", (long)m0);
  mm_armed = 1;
  rc = U(uriNormalizeSyntaxExMm)(&u, mask, &mm);
  mm_armed = 0;
#ifdef FAILING
  if (mm_failed){
    uk_assert(rc == URI_ERROR_MALLOC, "C14: normalisation with a failed allocation returns URI_ERROR_MALLOC");
    U(uriFreeUriMembersMm)(&u, &mm);                       /* the caller's ordinary cleanup of the URI it passed */
    uk_assert(uk_live() == 0, "C14: nothing stays allocated after a failed normalisation and uriFreeUriMembers");
    U(uriFreeUriMembersMm)(&u, &mm);
    uk_cover("alloc-failure-injected"); if (!owned) uk_cover("alloc-failure-borrowed"); return 0;
  }
#endif
  uk_assert(rc == URI_SUCCESS, "C08: normalisation succeeds");
  if (rc != URI_SUCCESS){ U(uriFreeUriMembersMm)(&u, &mm); return 0; }
  en = on_normalize(t, n, &s, mode == 0 ? mask : 63u, exp, tmp, tmp2);
  got = recompose(&u, &len);
  uk_note_text("got", got, len, sizeof(CH)); uk_note_text("expected", exp, en, sizeof(CH));
  kf = 0;
#ifdef KF_NORM_DSLASH
    if (on_unspecified & ON_CLS_DSLASH) kf = 1;
#endif
#ifdef KF_NORM_COLON
    if (on_unspecified & ON_CLS_COLON) kf = 1;
#endif
#ifdef KF_NORM_EMPTY
    if (on_unspecified & ON_CLS_EMPTY) kf = 1;
#endif
#ifdef KF_NORM_ABS
    if (on_unspecified & ON_CLS_ABS) kf = 1;
#endif
#ifdef P_C08
  if (!on_unspecified){
    uk_assert(len == en, mode == 0 ? "C08: selected components take the normal form, others keep their text (length)" : "C08: normalising with the required mask equals full normalisation (length)");
    if (len == en) for (i = 0; i < en; i++) uk_assert(got[i] == exp[i], mode == 0 ? "C08: selected components take the normal form, others keep their text" : "C08: normalising with the required mask equals full normalisation");
    if (mode == 1 && m0 == 0){
      uk_assert(len == n, "C08: zero required mask means the URI already is in normal form (length)");
      uk_cover("mask-required-zero");
    }
    uk_cover("normal-form-compared");
  } else uk_cover("path-form-left-to-C07-C09");
  /* idempotence */
  if (!kf){ int len2 = 0; CH *again; rc = U(uriNormalizeSyntaxExMm)(&u, mask, &mm);
    uk_assert(rc == URI_SUCCESS, "C08: second normalisation succeeds");
    again = recompose(&u, &len2);
    uk_assert(len2 == len, "C08: normalising twice equals normalising once (length)");
    if (len2 == len) for (i = 0; i < len; i++) uk_assert(again[i] == got[i], "C08: normalising twice equals normalising once"); }
#endif
  if (kf){ uk_cover("known-finding-class"); goto after_meaning; }
#ifdef P_C09
  { int had_scheme = s.sch_a >= 0, had_auth = s.has_auth;
    uk_assert((u.scheme.first != 0) == had_scheme, "C09: normalisation neither adds nor removes a scheme");
    uk_assert(host_set(&u) == had_auth, "C09: normalisation neither adds nor removes an authority");
    if (!had_scheme && !had_auth){
      int was_abs = s.path_b > s.path_a && CHV(t[s.path_a]) == '/';
      int was_empty = s.path_a == s.path_b;
      os_split_t s2; os_split(got, len, &s2);
      uk_assert(s2.sch_a < 0 && !s2.has_auth, "C09: the normalised reference still has neither scheme nor authority when read back");
      if (s2.sch_a < 0 && !s2.has_auth){
        int is_abs = s2.path_b > s2.path_a && CHV(got[s2.path_a]) == '/';
        if (!was_abs && !was_empty){ uk_assert(!is_abs, "C09: a relative path does not become absolute"); uk_assert(s2.path_b > s2.path_a, "C09: a relative path does not become empty"); uk_cover("relative-path-ref"); }
        if (was_abs) uk_assert(is_abs, "C09: an absolute path does not become relative");
      }
    }
  }
#endif
#ifdef P_C07
  chk_reparse_stable(&u);
#endif
after_meaning:
#ifdef P_C05
  chk_tostring_contract(&u);
#endif
#ifdef P_C12
  if (mask != 0){
    uk_assert(u.owner == URI_TRUE, "C12: a URI normalised with a non-zero mask owns its text");
    uk_writable(t); uk_kill(t, (size_t)n * sizeof(CH));
    { int len2 = 0; CH *again = recompose(&u, &len2);
      uk_assert(len2 == len, "C12: recomposed text unchanged after the source text was destroyed (length)");
      if (len2 == len) for (i = 0; i < len; i++) uk_assert(again[i] == got[i], "C12: recomposed text unchanged after the source text was destroyed"); }
    uk_cover("source-killed");
  }
#endif
  if (s.hostkind == HK_IP4) uk_cover("host-ip4"); if (s.hostkind == HK_IP6) uk_cover("host-ip6"); if (s.hostkind == HK_FUTURE) uk_cover("host-ipfuture"); if (s.hostkind == HK_REGNAME) uk_cover("host-regname");
  if (owned) uk_cover("owned-in-place"); else uk_cover("borrowed-copying");
  U(uriFreeUriMembersMm)(&u, &mm);
  uk_assert(uk_live() == 0, "C13: all blocks returned after uriFreeUriMembersMm");
  uk_assert(uk_libc_calls() == 0, "C13: no C library allocator call while a custom manager is supplied");
  (void)m0ex;
  return 0;
}
