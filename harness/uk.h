/* uk.h -- harness intrinsics. Under uksym these are executor built-ins; natively (replay) uk_native.c implements them
 * by reading the recorded input values in creation order. */
#ifndef UK_H
#define UK_H
#include <stddef.h>
void  uk_sym_bytes(void *p, size_t n, const char *name);   /* n fresh symbolic 8-bit values */
void  uk_sym_words(void *p, size_t n, const char *name);   /* n fresh symbolic 32-bit values */
int   uk_sym_int(const char *name);
long  uk_sym_long(const char *name);
int   uk_choice(int n, const char *name);                  /* fresh value in [0,n) */
void  uk_assume(int c);
void  uk_assert(int c, const char *msg);
void  uk_cover(const char *label);                          /* reachability witness */
void  uk_note(const char *label, long v);
void  uk_note_text(const char *label, const void *p, long n, int elsize);  /* remember a text for counterexample reports */
void *uk_malloc(size_t n);
void  uk_free(void *p);
long  uk_live(void);                                        /* live uk_malloc blocks */
long  uk_live_libc(void);
size_t uk_blocksize(const void *p);                        /* size of a live uk_malloc block (for the ledger manager's realloc) */
long  uk_libc_calls(void);                                  /* calls to the C library allocator so far */
void *uk_buf(size_t n, const char *name);                   /* fresh exact-size object, not in the heap ledger */
void  uk_readonly(const void *p, size_t n);                 /* the object holding p becomes read-only (n: its size, for native replay) */
void  uk_writable(const void *p);
void  uk_kill(const void *p, size_t n);                     /* every later access to the object is a violation */
void  uk_watch(const void *p, size_t nbytes);               /* only [p, p+nbytes) of the object may be accessed */
void  uk_limit(const void *p, long nelem, int elsize);      /* stores at or beyond nelem*elsize bytes are violations (nelem may be symbolic) */
void  uk_unlimit(const void *p);
int   uk_is_heap(const void *p);                            /* p is the base of a live heap block (1 natively) */
void  uk_fail(const char *msg);
void  uk_exit(void);
#endif
