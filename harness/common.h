/* shared definitions for all harnesses: character-type genericity and small helpers */
#ifndef COMMON_H
#define COMMON_H
#include <wchar.h>
#include <uriparser/Uri.h>
#include "uk.h"
#ifdef WIDE
typedef wchar_t CH; typedef unsigned int UCH;
#define U(x) x##W
#define SYM_TEXT(p, n, name) uk_sym_words(p, n, name)
#define T(x) L##x
#else
typedef char CH; typedef unsigned char UCH;
#define U(x) x##A
#define SYM_TEXT(p, n, name) uk_sym_bytes(p, n, name)
#define T(x) x
#endif
typedef U(UriUri) URI; typedef U(UriPathSegment) SEG; typedef U(UriTextRange) RANGE; typedef U(UriParserState) PSTATE;
typedef U(UriQueryList) QLIST;
#define CHV(c) ((unsigned long)(UCH)(c))
#ifdef P_ALL
#define P_C01
#define P_C02
#define P_C03
#define P_C04
#define P_C05
#define P_C07
#define P_C13
#endif
#endif
