/* h_selfcheck: interpreter self-validation.  Every string literal of the repository's own tests is pushed through a battery of
 * library calls; a digest of all return codes, offsets and produced texts is computed.  The same source runs natively and under
 * uksym (concrete inputs, one path); the two digests must be identical. */
#include <string.h>
#include <uriparser/Uri.h>
#include "uk.h"
#include "mm.h"
#include "literals.h"
static unsigned long dg = 1469598103934665603ul;
static void mix(unsigned long v){ int i; for (i = 0; i < 8; i++){ dg ^= (v >> (8 * i)) & 255; dg *= 1099511628211ul; } }
static void mixs(const char *s, long n){ long i; mix((unsigned long)n); for (i = 0; i < n; i++) mix((unsigned char)s[i]); }
static void digest_uri(const UriUriA *u, const char *base){
  const UriPathSegmentA *s; char buf[400]; int w = -1, rc;
  mix(u->scheme.first ? (unsigned long)(u->scheme.afterLast - u->scheme.first) : 999); mix(u->hostText.first ? (unsigned long)(u->hostText.afterLast - u->hostText.first) : 999);
  mix(u->absolutePath); mix(u->owner); mix(u->hostData.ip4 != 0); mix(u->hostData.ip6 != 0);
  if (u->hostData.ip4) mixs((const char *)u->hostData.ip4->data, 4); if (u->hostData.ip6) mixs((const char *)u->hostData.ip6->data, 16);
  for (s = u->pathHead; s; s = s->next) mix((unsigned long)(s->text.afterLast - s->text.first));
  rc = uriToStringA(buf, u, sizeof buf, &w); mix((unsigned long)rc); mix((unsigned long)w); if (rc == 0) mixs(buf, w);
}
int main(void){
  int i; UriUriA base; const char *e; static const char bt[] = "http://a/b/c/d;p?q";
  uriParseSingleUriExMmA(&base, bt, bt + sizeof bt - 1, &e, &mm);
  for (i = 0; i < NLITERALS; i++){
    const char *t = LITERALS[i]; long n = (long)strlen(t); UriUriA u, v, r; int rc; char tmp[700]; const char *end;
    rc = uriParseSingleUriExMmA(&u, t, t + n, &e, &mm); mix((unsigned long)rc);
    if (rc){ mix((unsigned long)(e - t)); }
    else {
      digest_uri(&u, t); mix(uriNormalizeSyntaxMaskRequiredA(&u));
      rc = uriAddBaseUriExMmA(&r, &u, &base, URI_RESOLVE_STRICTLY, &mm); mix((unsigned long)rc); if (!rc) digest_uri(&r, t); uriFreeUriMembersMmA(&r, &mm);
      rc = uriRemoveBaseUriMmA(&r, &u, &base, URI_FALSE, &mm); mix((unsigned long)rc); if (!rc) digest_uri(&r, t); uriFreeUriMembersMmA(&r, &mm);
      mix((unsigned long)uriEqualsUriA(&u, &base));
      if (!uriParseSingleUriExMmA(&v, t, t + n, &e, &mm)){ rc = uriNormalizeSyntaxExMmA(&v, (unsigned)-1, &mm); mix((unsigned long)rc); digest_uri(&v, t); uriFreeUriMembersMmA(&v, &mm); }
      rc = uriMakeOwnerMmA(&u, &mm); mix((unsigned long)rc); digest_uri(&u, t);
      uriFreeUriMembersMmA(&u, &mm);
    }
    if (n < 100){
      end = uriEscapeExA(t, t + n, tmp, URI_TRUE, URI_TRUE); mixs(tmp, end - tmp);
      memcpy(tmp, t, (size_t)n + 1); end = uriUnescapeInPlaceExA(tmp, URI_TRUE, URI_BR_TO_CRLF); mixs(tmp, end - tmp);
      { UriQueryListA *ql = 0; int cnt = 0; rc = uriDissectQueryMallocExMmA(&ql, &cnt, t, t + n, URI_TRUE, URI_BR_DONT_TOUCH, &mm); mix((unsigned long)rc); mix((unsigned long)cnt);
        if (!rc){ UriQueryListA *q; for (q = ql; q; q = q->next){ mixs(q->key, (long)strlen(q->key)); mix(q->value != 0); } uriFreeQueryListMmA(ql, &mm); } }
      { char fn[8 + 3 * 100 + 1]; rc = uriUnixFilenameToUriStringA(t, fn); mixs(fn, (long)strlen(fn)); rc = uriWindowsFilenameToUriStringA(t, fn); mixs(fn, (long)strlen(fn)); }
    }
  }
  uriFreeUriMembersMmA(&base, &mm);
  mix((unsigned long)uk_live());
  uk_note("digest", (long)dg);
  uk_assert(uk_live() == 0, "selfcheck: ledger balanced");
  uk_cover("selfcheck-complete");
  return 0;
}
