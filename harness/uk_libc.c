/* libc leaf functions used by uriparser, as plain C so that they are executed symbolically like everything else */
#include <stddef.h>
#include <wchar.h>
#ifndef MODE_ARITH   /* the C17 arithmetic harness stubs strlen/wcslen with an arbitrary size_t */
size_t strlen(const char *s){ size_t n = 0; while (s[n]) n++; return n; }
size_t wcslen(const wchar_t *s){ size_t n = 0; while (s[n]) n++; return n; }
#endif
int strncmp(const char *a, const char *b, size_t n){
  for (size_t i = 0; i < n; i++){ unsigned char x = (unsigned char)a[i], y = (unsigned char)b[i];
    if (x != y) return x < y ? -1 : 1; if (!x) return 0; }
  return 0; }
int wcsncmp(const wchar_t *a, const wchar_t *b, size_t n){
  for (size_t i = 0; i < n; i++){ if (a[i] != b[i]) return a[i] < b[i] ? -1 : 1; if (!a[i]) return 0; }
  return 0; }
int memcmp(const void *a, const void *b, size_t n){ const unsigned char *x = a, *y = b;
  for (size_t i = 0; i < n; i++) if (x[i] != y[i]) return x[i] < y[i] ? -1 : 1;
  return 0; }
int strcmp(const char *a, const char *b){ size_t i = 0; for (;; i++){ unsigned char x = (unsigned char)a[i], y = (unsigned char)b[i];
    if (x != y) return x < y ? -1 : 1; if (!x) return 0; } }
