/* libc leaf functions used by uriparser, as plain C so that they are executed symbolically like everything else */
#include <stddef.h>
#include <wchar.h>
size_t strlen(const char *s);
#ifndef MODE_ARITH   /* the C17 arithmetic harness stubs strlen/wcslen with an arbitrary size_t */
size_t strlen(const char *s){ size_t n = 0; while (s[n]) n++; return n; }
size_t wcslen(const wchar_t *s){ size_t n = 0; while (s[n]) n++; return n; }
#endif
int strncmp(const char *a, const char *b, size_t n){
  for (size_t i = 0; i < n; i++){ unsigned char x = (unsigned char)a[i], y = (unsigned char)b[i];
    if (x != y) return x < y ? -1 : 1; if (!x) return 0; }
  return 0; }
int wcsncmp(const wchar_t *a, const wchar_t *b, size_t n){
  for (size_t i = 0; i < n; i++){ if (a[i] != b[i]) return a[i] < b[i] ? -1 : 1; if (!a[i]) return 0; }
  return 0; }
int memcmp(const void *a, const void *b, size_t n){ const unsigned char *x = a, *y = b;
  for (size_t i = 0; i < n; i++) if (x[i] != y[i]) return x[i] < y[i] ? -1 : 1;
  return 0; }
int strcmp(const char *a, const char *b){ size_t i = 0; for (;; i++){ unsigned char x = (unsigned char)a[i], y = (unsigned char)b[i];
    if (x != y) return x < y ? -1 : 1; if (!x) return 0; } }
/* further leaves a modified library might reach for (kept simple; executed symbolically like the rest) */
char *strncpy(char *d, const char *s, size_t n){ size_t i = 0; for (; i < n && s[i]; i++) d[i] = s[i]; for (; i < n; i++) d[i] = 0; return d; }
char *strcpy(char *d, const char *s){ size_t i = 0; for (;; i++){ d[i] = s[i]; if (!s[i]) break; } return d; }
char *strcat(char *d, const char *s){ strcpy(d + strlen(d), s); return d; }
char *strchr(const char *s, int c){ for (;; s++){ if (*s == (char)c) return (char *)s; if (!*s) return 0; } }
char *strrchr(const char *s, int c){ const char *r = 0; for (;; s++){ if (*s == (char)c) r = s; if (!*s) return (char *)r; } }
void *memchr(const void *s, int c, size_t n){ const unsigned char *p = s; size_t i; for (i = 0; i < n; i++) if (p[i] == (unsigned char)c) return (void *)(p + i); return 0; }
size_t strnlen(const char *s, size_t n){ size_t i = 0; while (i < n && s[i]) i++; return i; }
wchar_t *wcsncpy(wchar_t *d, const wchar_t *s, size_t n){ size_t i = 0; for (; i < n && s[i]; i++) d[i] = s[i]; for (; i < n; i++) d[i] = 0; return d; }
wchar_t *wcscpy(wchar_t *d, const wchar_t *s){ size_t i = 0; for (;; i++){ d[i] = s[i]; if (!s[i]) break; } return d; }
wchar_t *wcschr(const wchar_t *s, wchar_t c){ for (;; s++){ if (*s == c) return (wchar_t *)s; if (!*s) return 0; } }
int wcscmp(const wchar_t *a, const wchar_t *b){ size_t i = 0; for (;; i++){ if (a[i] != b[i]) return a[i] < b[i] ? -1 : 1; if (!a[i]) return 0; } }
wchar_t *wmemcpy(wchar_t *d, const wchar_t *s, size_t n){ size_t i; for (i = 0; i < n; i++) d[i] = s[i]; return d; }
wchar_t *wmemset(wchar_t *d, wchar_t c, size_t n){ size_t i; for (i = 0; i < n; i++) d[i] = c; return d; }
int wmemcmp(const wchar_t *a, const wchar_t *b, size_t n){ size_t i; for (i = 0; i < n; i++) if (a[i] != b[i]) return a[i] < b[i] ? -1 : 1; return 0; }
int abs(int x){ return x < 0 ? -x : x; }
/* <ctype.h> / <wctype.h> in the "C" locale as loop-free pure functions (the library IR is compiled with -D__NO_CTYPE so that glibc's
 * table macros become calls); values outside unsigned char / EOF are undefined behaviour in C - classified as "no" here */
int isdigit(int c){ return c >= '0' && c <= '9'; }
int isupper(int c){ return c >= 'A' && c <= 'Z'; }
int islower(int c){ return c >= 'a' && c <= 'z'; }
int isalpha(int c){ return (c >= 'A' && c <= 'Z') || (c >= 'a' && c <= 'z'); }
int isalnum(int c){ return (c >= '0' && c <= '9') || (c >= 'A' && c <= 'Z') || (c >= 'a' && c <= 'z'); }
int isxdigit(int c){ return (c >= '0' && c <= '9') || (c >= 'A' && c <= 'F') || (c >= 'a' && c <= 'f'); }
int isspace(int c){ return c == ' ' || (c >= 9 && c <= 13); }
int isblank(int c){ return c == ' ' || c == 9; }
int iscntrl(int c){ return (c >= 0 && c < 32) || c == 127; }
int isprint(int c){ return c >= 32 && c < 127; }
int isgraph(int c){ return c > 32 && c < 127; }
int ispunct(int c){ return c > 32 && c < 127 && !((c >= '0' && c <= '9') || (c >= 'A' && c <= 'Z') || (c >= 'a' && c <= 'z')); }
int tolower(int c){ return (c >= 'A' && c <= 'Z') ? c + 32 : c; }
int toupper(int c){ return (c >= 'a' && c <= 'z') ? c - 32 : c; }
int iswdigit(unsigned c){ return c >= '0' && c <= '9'; }
int iswupper(unsigned c){ return c >= 'A' && c <= 'Z'; }
int iswlower(unsigned c){ return c >= 'a' && c <= 'z'; }
int iswalpha(unsigned c){ return (c >= 'A' && c <= 'Z') || (c >= 'a' && c <= 'z'); }
int iswalnum(unsigned c){ return (c >= '0' && c <= '9') || (c >= 'A' && c <= 'Z') || (c >= 'a' && c <= 'z'); }
int iswxdigit(unsigned c){ return (c >= '0' && c <= '9') || (c >= 'A' && c <= 'F') || (c >= 'a' && c <= 'f'); }
unsigned towlower(unsigned c){ return (c >= 'A' && c <= 'Z') ? c + 32 : c; }
unsigned towupper(unsigned c){ return (c >= 'a' && c <= 'z') ? c - 32 : c; }
