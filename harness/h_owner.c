/* h_owner: parse -> uriMakeOwnerMm -> destroy the source text -> the URI is unchanged.  Serves C12 (and C14 with FAILING, C13). */
#include "common.h"
#include "mm.h"
#include "oracle_split.h"
#include "checks.h"
#include "gen.h"
#ifndef KO
#define KO 2
#endif
#ifndef SEGL
#define SEGL 1
#endif
#ifndef OFLAGS
#define OFLAGS (G_SCHEME_OPT | G_AUTH | G_USERINFO | G_PORT | G_HOSTKINDS | G_EMPTYHOST | G_QUERY | G_FRAG)
#endif
#define CAP (GEN_CAP(KO, SEGL) + 8)
int main(void){
  CH tb[CAP]; CH *t, *before, *after; long n, i; URI u; const CH *ep = 0; int rc, l1 = 0, l2 = 0; os_split_t s;
  n = gen_uri(tb, OFLAGS, KO, SEGL, "u");
  t = uk_buf((size_t)n * sizeof(CH), "text"); for (i = 0; i < n; i++) t[i] = tb[i];
  uk_readonly(t, (size_t)n * sizeof(CH)); uk_note_text("text", t, n, sizeof(CH));
  if (U(uriParseSingleUriExMm)(&u, t, t + n, &ep, &mm) != URI_SUCCESS){ uk_assume(0); return 0; }
  os_split(t, n, &s);
  before = recompose(&u, &l1);
  mm_armed = 1;
  rc = U(uriMakeOwnerMm)(&u, &mm);
  mm_armed = 0;
#ifdef FAILING
  if (mm_failed){
    uk_assert(rc == URI_ERROR_MALLOC, "C14: uriMakeOwner with a failed allocation returns URI_ERROR_MALLOC");
    U(uriFreeUriMembersMm)(&u, &mm);
    uk_assert(uk_live() == 0, "C14: nothing stays allocated after a failed uriMakeOwner and uriFreeUriMembers");
    U(uriFreeUriMembersMm)(&u, &mm);
    uk_cover("alloc-failure-injected"); return 0;
  }
#endif
  uk_assert(rc == URI_SUCCESS, "C12: uriMakeOwner succeeds");
  if (rc) return 0;
  uk_assert(u.owner == URI_TRUE, "C12: the URI owns its text after uriMakeOwner");
  uk_writable(t); uk_kill(t, (size_t)n * sizeof(CH));          /* every later access to the source text is a violation */
  after = recompose(&u, &l2);
  uk_assert(l1 == l2, "C12: recomposed text unchanged by uriMakeOwner and destruction of the source (length)");
  if (l1 == l2) for (i = 0; i < l1; i++) uk_assert(after[i] == before[i], "C12: recomposed text unchanged by uriMakeOwner and destruction of the source");
  chk_inv(&u);
#ifdef P_C07
  chk_reparse_stable(&u);
#endif
  if (s.hostkind == HK_IP4) uk_cover("host-ip4"); if (s.hostkind == HK_IP6) uk_cover("host-ip6"); if (s.hostkind == HK_FUTURE) uk_cover("host-ipfuture"); if (s.hostkind == HK_REGNAME) uk_cover("host-regname");
  if (s.has_auth && s.host_a == s.host_b) uk_cover("empty-host");
  U(uriFreeUriMembersMm)(&u, &mm);
  uk_assert(uk_live() == 0, "C13: all blocks returned after uriFreeUriMembersMm");
  U(uriFreeUriMembersMm)(&u, &mm); U(uriFreeUriMembersMm)(&u, &mm);
  uk_assert(uk_libc_calls() == 0, "C13: no C library allocator call while a custom manager is supplied");
  return 0;
}
