/* h_mm: C13 -- an incomplete memory manager is rejected before anything is allocated; with memory == NULL only the C library
 * allocator is used and everything is returned to it. */
#include "common.h"
#include "mm.h"
#include <stdlib.h>
static int calls;
static void *c_malloc(UriMemoryManager *m, size_t n){ (void)m; calls++; return uk_malloc(n); }
static void *c_calloc(UriMemoryManager *m, size_t a, size_t b){ void *p; (void)m; calls++; p = uk_malloc(a * b); memset(p, 0, a * b); return p; }
static void *c_realloc(UriMemoryManager *m, void *p, size_t n){ (void)m; (void)p; (void)n; calls++; return 0; }
static void *c_reallocarray(UriMemoryManager *m, void *p, size_t a, size_t b){ (void)m; (void)p; (void)a; (void)b; calls++; return 0; }
static void c_free(UriMemoryManager *m, void *p){ (void)m; calls++; uk_free(p); }
int main(void){
  static const CH text[] = { 's',':','/','/','h','/','a','/','.','.','/','b','?','q','=','1','&','r', 0 }; long n = 18;
  static const CH qtext[] = { 'a','=','1','&','b', 0 };
  URI u, b, t; const CH *ep = 0; QLIST *ql = 0; int cnt = 0, rc; CH *str = 0;
#ifdef INCOMPLETE
  UriMemoryManager im; int missing = uk_choice(5, "missing"), fn = uk_choice(9, "function"); QLIST item;
  im.malloc = c_malloc; im.calloc = c_calloc; im.realloc = c_realloc; im.reallocarray = c_reallocarray; im.free = c_free; im.userData = 0;
  if (missing == 0) im.malloc = 0; else if (missing == 1) im.calloc = 0; else if (missing == 2) im.realloc = 0; else if (missing == 3) im.reallocarray = 0; else im.free = 0;
  if (uk_choice(2, "second")){ int m2 = uk_choice(5, "missing2"); if (m2 == 0) im.malloc = 0; else if (m2 == 1) im.calloc = 0; else if (m2 == 2) im.realloc = 0; else if (m2 == 3) im.reallocarray = 0; else im.free = 0; }
  /* operands built with the complete manager */
  if (U(uriParseSingleUriExMm)(&u, text, text + n, &ep, &mm)) return 0;
  if (U(uriParseSingleUriExMm)(&b, text, text + n, &ep, &mm)) return 0;
  item.key = qtext; item.value = 0; item.next = 0;
  switch (fn){
    case 0: rc = U(uriParseSingleUriExMm)(&t, text, text + n, &ep, &im); break;
    case 1: rc = U(uriFreeUriMembersMm)(&u, &im); break;
    case 2: rc = U(uriAddBaseUriExMm)(&t, &u, &b, URI_RESOLVE_STRICTLY, &im); break;
    case 3: rc = U(uriRemoveBaseUriMm)(&t, &u, &b, URI_FALSE, &im); break;
    case 4: rc = U(uriNormalizeSyntaxExMm)(&u, (unsigned)-1, &im); break;
    case 5: rc = U(uriMakeOwnerMm)(&u, &im); break;
    case 6: rc = U(uriDissectQueryMallocExMm)(&ql, &cnt, qtext, qtext + 5, URI_TRUE, URI_BR_DONT_TOUCH, &im); break;
    case 7: rc = U(uriComposeQueryMallocExMm)(&str, &item, URI_TRUE, URI_FALSE, &im); break;
    default: rc = U(uriFreeQueryListMm)(&item, &im); break;
  }
  uk_assert(rc == URI_ERROR_MEMORY_MANAGER_INCOMPLETE, "C13: an incomplete memory manager is rejected with URI_ERROR_MEMORY_MANAGER_INCOMPLETE");
  uk_assert(calls == 0, "C13: nothing is allocated or released through an incomplete manager");
  uk_cover("incomplete-rejected");
  U(uriFreeUriMembersMm)(&u, &mm); U(uriFreeUriMembersMm)(&b, &mm);
  uk_assert(uk_live() == 0, "C13: operands released");
#else
  /* default manager: memory == NULL */
  QLIST item; item.key = qtext; item.value = qtext; item.next = 0;
  rc = U(uriParseSingleUriExMm)(&u, text, text + n, &ep, 0); uk_assert(rc == URI_SUCCESS, "C13: parse with the default manager");
  rc = U(uriParseSingleUriExMm)(&b, text, text + n, &ep, 0); uk_assert(rc == URI_SUCCESS, "C13: parse with the default manager");
  rc = U(uriAddBaseUriExMm)(&t, &u, &b, URI_RESOLVE_STRICTLY, 0); uk_assert(rc == URI_SUCCESS, "C13: resolve with the default manager"); U(uriFreeUriMembersMm)(&t, 0);
  rc = U(uriRemoveBaseUriMm)(&t, &u, &b, URI_FALSE, 0); uk_assert(rc == URI_SUCCESS, "C13: create reference with the default manager"); U(uriFreeUriMembersMm)(&t, 0);
  rc = U(uriNormalizeSyntaxExMm)(&u, (unsigned)-1, 0); uk_assert(rc == URI_SUCCESS, "C13: normalise with the default manager");
  rc = U(uriMakeOwnerMm)(&b, 0); uk_assert(rc == URI_SUCCESS, "C13: make owner with the default manager");
  rc = U(uriDissectQueryMallocExMm)(&ql, &cnt, qtext, qtext + 5, URI_TRUE, URI_BR_DONT_TOUCH, 0); uk_assert(rc == URI_SUCCESS && cnt == 2, "C13: dissect with the default manager");
  U(uriFreeQueryListMm)(ql, 0);
  rc = U(uriComposeQueryMallocExMm)(&str, &item, URI_TRUE, URI_FALSE, 0); uk_assert(rc == URI_SUCCESS && str != 0, "C13: compose with the default manager");
  free(str);
  U(uriFreeUriMembersMm)(&u, 0); U(uriFreeUriMembersMm)(&b, 0);
  uk_assert(uk_libc_calls() > 0 && uk_live_libc() == 0, "C13: with memory == NULL everything comes from and returns to the C library allocator");
  uk_assert(uk_live() == 0, "C13: the harness manager was not involved");
  U(uriFreeUriMembersMm)(&u, 0); U(uriFreeUriMembersMm)(&u, 0);
  uk_cover("default-manager");
#endif
  return 0;
}
