/* h_memmgr: C15 -- a manager completed from a malloc/free-only backend behaves like the C allocator.
 * Backend: logs calls, fails at any position (symbolic), refuses more than HDR+CAP bytes; blocks come from the executor's heap
 * ledger, which flags a release of anything but a live block's own base pointer, double frees and use after free.
 * A symbolic sequence of OPS operations over SLOTS slots; sizes are arbitrary 64-bit values (for products: one factor <= 3). */
#include <stddef.h>
#include <stdint.h>
#include <errno.h>
#include <string.h>
#include <uriparser/Uri.h>
#include "uk.h"
#ifndef OPS
#define OPS 3
#endif
#define SLOTS 2
#ifndef CAP
#define CAP 2
#endif
#define HDR sizeof(size_t)
static int b_mallocs, b_frees;
#ifdef SELFTEST   /* the built-in self test needs a backend that never fails and grants its (small, fixed) sizes */
static void *b_malloc(UriMemoryManager *m, size_t n){ (void)m; b_mallocs++; if (n > 4096) return 0; return uk_malloc(n); }
#else
static void *b_malloc(UriMemoryManager *m, size_t n){ (void)m; b_mallocs++; if (uk_choice(2, "backendFails")) return 0; if (n > HDR + CAP) return 0; return uk_malloc(n); }
#endif
static void b_free(UriMemoryManager *m, void *p){ (void)m; b_frees++; uk_free(p); }
static size_t any_size(const char *name){ return (size_t)uk_sym_long(name); }
int main(void){
  UriMemoryManager backend, mm; unsigned char *blk[SLOTS]; size_t sz[SLOTS]; unsigned char shadow[SLOTS][CAP + 1]; int live[SLOTS], s, k; size_t i;
  memset(&backend, 0, sizeof backend); backend.malloc = b_malloc; backend.free = b_free;
  for (s = 0; s < SLOTS; s++){ blk[s] = 0; sz[s] = 0; live[s] = 0; }
  uk_assert(uriCompleteMemoryManager(&mm, &backend) == URI_SUCCESS, "C15: completing a malloc/free backend succeeds");
  for (k = 0; k < OPS; k++){
    int op = uk_choice(5, "op"), slot = uk_choice(SLOTS, "slot"); size_t a, b = 1, want; int ovf = 0; unsigned char *p, *old; long before = uk_live();
    errno = 0;
#ifdef MODE_PRODUCT
    /* element-count products with one factor <= 3 and the other an arbitrary 64-bit value */
    op = 1 + 2 * uk_choice(2, "productOp");
#endif
    if (op == 1 || op == 3){
#ifdef MODE_PRODUCT
      if (uk_choice(2, "smallFirst")){ a = (size_t)uk_choice(4, "nmemb"); b = any_size("size"); } else { a = any_size("nmemb"); b = (size_t)uk_choice(4, "size"); }
#else
      /* in histories the factors come from a table of small and boundary values (the arbitrary case is MODE_PRODUCT) */
#ifndef TABN
#define TABN 7
#endif
      static const size_t tab[7] = { 0, SIZE_MAX, 2, 3, (size_t)1 << 63, 1, SIZE_MAX / 3 + 1 };
      a = (size_t)uk_choice(4, "nmemb"); b = tab[uk_choice(TABN, "sizeIdx")]; if (uk_choice(2, "swap")){ size_t t = a; a = b; b = t; }
#endif
      ovf = a != 0 && b > SIZE_MAX / a; want = a * b; }
    else { a = any_size("size"); want = a; }
    if (op == 0 || op == 1){
      if (live[slot]) continue;
      p = op == 0 ? mm.malloc(&mm, a) : mm.calloc(&mm, a, b);
      if (ovf){ uk_assert(p == 0 && errno == ENOMEM, "C15: calloc with an overflowing product fails with ENOMEM"); uk_assert(uk_live() == before, "C15: nothing allocated on overflow"); uk_cover("product-overflow"); continue; }
      if (!p){ uk_assert(uk_live() == before, "C15: a failed allocation leaves the backend unchanged"); continue; }
      uk_assert(want <= CAP, "C15: a granted block is one the backend granted");
      for (s = 0; s < SLOTS; s++) if (live[s]) uk_assert(p != blk[s], "C15: live blocks are distinct");
      if (op == 1) for (i = 0; i < want; i++) uk_assert(p[i] == 0, "C15: calloc memory is zeroed");
      for (i = 0; i < want; i++){ unsigned char v; uk_sym_bytes(&v, 1, "fill"); p[i] = v; shadow[slot][i] = v; }     /* usable over its full size */
      blk[slot] = p; sz[slot] = want; live[slot] = 1;
    } else if (op == 2 || op == 3){
      old = live[slot] ? blk[slot] : 0;
      p = op == 2 ? mm.realloc(&mm, old, a) : mm.reallocarray(&mm, old, a, b);
      if (ovf){ uk_assert(p == 0 && errno == ENOMEM, "C15: reallocarray with an overflowing product fails with ENOMEM");
                if (old) for (i = 0; i < sz[slot]; i++) uk_assert(old[i] == shadow[slot][i], "C15: old block intact after a refused reallocarray"); uk_cover("product-overflow"); continue; }
      if (old && want == 0){ uk_assert(p == 0, "C15: realloc(p, 0) frees and returns NULL"); uk_assert(uk_live() == before - 1, "C15: realloc(p, 0) released the block"); live[slot] = 0; uk_cover("realloc-to-zero"); continue; }
      if (!p){ uk_assert(uk_live() == before, "C15: a failed realloc leaves the backend unchanged");
               if (old){ for (i = 0; i < sz[slot]; i++) uk_assert(old[i] == shadow[slot][i], "C15: old block and contents intact after a failed realloc"); uk_cover("realloc-failed-old-intact"); } continue; }
      if (!old) uk_cover("realloc-null-is-malloc");
      { size_t keep = old ? (sz[slot] < want ? sz[slot] : want) : 0;
        for (i = 0; i < keep; i++) uk_assert(p[i] == shadow[slot][i], "C15: realloc preserves the common prefix");
        for (s = 0; s < SLOTS; s++) if (live[s] && s != slot) uk_assert(p != blk[s], "C15: live blocks are distinct after realloc");
        uk_assert(want <= CAP || (old && p == old), "C15: a grown block is one the backend granted");
        if (old && p == old){ if (want > sz[slot]) uk_fail("C15: realloc returned the old block for a larger size"); uk_cover("realloc-shrink-in-place"); }
        else { for (i = keep; i < want; i++){ unsigned char v; uk_sym_bytes(&v, 1, "fill"); p[i] = v; shadow[slot][i] = v; } sz[slot] = want; if (old) uk_cover("realloc-grow-moved"); }
        blk[slot] = p; live[slot] = 1; }
    } else {
      if (!live[slot]){ mm.free(&mm, 0); uk_assert(uk_live() == before, "C15: free(NULL) does nothing"); continue; }
      for (i = 0; i < sz[slot]; i++) uk_assert(blk[slot][i] == shadow[slot][i], "C15: block contents intact until freed");
      mm.free(&mm, blk[slot]); live[slot] = 0;
      uk_assert(uk_live() == before - 1, "C15: free releases exactly one backend block");
    }
  }
  for (s = 0; s < SLOTS; s++) if (live[s]){ for (i = 0; i < sz[s]; i++) uk_assert(blk[s][i] == shadow[s][i], "C15: block contents intact until freed"); mm.free(&mm, blk[s]); }
  uk_assert(uk_live() == 0, "C15: nothing stays allocated once the caller freed everything");
  if (b_mallocs >= 2 && b_frees >= 2) uk_cover("two-allocations-two-releases");
#ifdef SELFTEST
  uk_assert(uriTestMemoryManager(&mm) == URI_SUCCESS, "C15: the built-in self test passes on the completed manager");
#endif
  return 0;
}
