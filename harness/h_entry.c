/* h_entry: the five parse entry points agree.  N symbolic characters followed by a NUL; the text may contain earlier NULs (so the
 * first NUL is symbolic).  uriParseSingleUriExMm on [text, first NUL) is the reference (decided against the grammar by h_parse);
 * uriParseUriEx, uriParseUri, uriParseSingleUri and uriParseSingleUriEx(afterLast = NULL) must return the same code, error
 * position and structure.  Serves C01/C02 (configurations: all parse entry points). */
#include "common.h"
#include "mm.h"
#include "oracle_split.h"
#include "checks.h"
#ifndef NMAX
#define NMAX 4
#endif
static void same_uri(const URI *a, const CH *ta, const URI *b, const CH *tb){
  const SEG *x, *y;
#define SAME(r) uk_assert((a->r.first == 0) == (b->r.first == 0) && (a->r.afterLast - a->r.first) == (b->r.afterLast - b->r.first) && (a->r.first == 0 || a->r.first == a->r.afterLast || (a->r.first - ta) == (b->r.first - tb)), "C02: entry points report the same component ranges")
  SAME(scheme); SAME(userInfo); SAME(hostText); SAME(portText); SAME(query); SAME(fragment); SAME(hostData.ipFuture);
  uk_assert(a->absolutePath == b->absolutePath && a->owner == b->owner && host_kind(a) == host_kind(b), "C02: entry points report the same flags and host kind");
  if (a->hostData.ip4 && b->hostData.ip4){ int i; for (i = 0; i < 4; i++) uk_assert(a->hostData.ip4->data[i] == b->hostData.ip4->data[i], "C02: entry points report the same IPv4 bytes"); }
  if (a->hostData.ip6 && b->hostData.ip6){ int i; for (i = 0; i < 16; i++) uk_assert(a->hostData.ip6->data[i] == b->hostData.ip6->data[i], "C02: entry points report the same IPv6 bytes"); }
  for (x = a->pathHead, y = b->pathHead; x && y; x = x->next, y = y->next)
    uk_assert((x->text.afterLast - x->text.first) == (y->text.afterLast - y->text.first) && (x->text.first == x->text.afterLast || (x->text.first - ta) == (y->text.first - tb)), "C02: entry points report the same segments");
  uk_assert(x == 0 && y == 0, "C02: entry points report the same number of segments");
}
int main(void){
  long n = uk_choice(NMAX + 1, "len"), i, z; CH *t = uk_buf((size_t)(n + 1) * sizeof(CH), "text"); URI ref, u; const CH *e0 = 0, *e = 0; int r0, r, which; PSTATE st;
  SYM_TEXT(t, (size_t)n, "t"); t[n] = 0;
  uk_readonly(t, (size_t)(n + 1) * sizeof(CH)); uk_note_text("text", t, n, sizeof(CH));
  for (z = 0; z < n && t[z] != 0; z++) ;                       /* first NUL (symbolic position) */
  r0 = U(uriParseSingleUriExMm)(&ref, t, t + z, &e0, &mm);
  which = uk_choice(4, "entry");
  { long libc_before = uk_live_libc();
  if (which == 0){ st.uri = &u; r = U(uriParseUriEx)(&st, t, t + z); e = st.errorPos; uk_assert(st.errorCode == r || r == URI_SUCCESS, "C01: state error code equals the return code"); uk_cover("uriParseUriEx"); }
  else if (which == 1){ st.uri = &u; r = U(uriParseUri)(&st, t); e = st.errorPos; uk_cover("uriParseUri"); }
  else if (which == 2){ r = U(uriParseSingleUri)(&u, t, &e); uk_cover("uriParseSingleUri"); }
  else { r = U(uriParseSingleUriEx)(&u, t, 0, &e); uk_cover("uriParseSingleUriEx-NULL-afterLast"); }
  if (r != URI_SUCCESS) uk_assert(uk_live_libc() == libc_before, "C03: nothing stays allocated after a failed parse through any entry point (before the caller frees anything)");
  uk_assert(r == r0, "C01: every parse entry point returns the same code as uriParseSingleUriExMm on the same text");
  if (r0 != URI_SUCCESS && r == r0) uk_assert(e != 0 && e0 != 0 && (e - t) == (e0 - t), "C01: every parse entry point reports the same error position");
  if (r0 == URI_SUCCESS && r == URI_SUCCESS){ same_uri(&ref, t, &u, t); uk_cover("accepted"); } else uk_cover("rejected");
  if (r == URI_SUCCESS || which <= 1) U(uriFreeUriMembers)(&u);
  if (r0 == URI_SUCCESS) U(uriFreeUriMembersMm)(&ref, &mm);
  uk_assert(uk_live() == 0 && uk_live_libc() == libc_before, "C03: nothing stays allocated"); }
  return 0;
}
