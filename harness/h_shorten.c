/* h_shorten: absolute source S and base B -> uriRemoveBaseUriMm -> the produced reference is resolved against B again with the
 * real resolver and compared with S after dot-segment normalisation (oracle R).  Serves C10 (and C07 C13 C12 C20). */
#include "common.h"
#include "mm.h"
#include "oracle_resolve.h"
#include "checks.h"
#include "gen.h"
#ifndef KS
#define KS 2
#endif
#ifndef KB
#define KB 2
#endif
#ifndef SEGL
#define SEGL 1
#endif
#ifndef SFLAGS
#define SFLAGS (G_SCHEME_REQ | G_AUTH | G_QUERY)
#endif
#ifndef BFLAGS
#define BFLAGS (G_SCHEME_REQ | G_AUTH | G_QUERY)
#endif
#define CAP (GEN_CAP(KS, SEGL) + GEN_CAP(KB, SEGL) + 8)

static CH *exact(const CH *src, long n, const char *name){ CH *p = uk_buf((size_t)n * sizeof(CH), name); long i; for (i = 0; i < n; i++) p[i] = src[i]; uk_readonly(p, (size_t)n * sizeof(CH)); return p; }

/* canonical text: dot segments removed, empty path under an authority written as "/" */
static long canon(const CH *t, long n, CH *out, CH *tmp){
  os_split_t s; long o = 0, pn; os_split(t, n, &s);
  o = or_copy(out, o, t, 0, s.path_a);
  pn = or_remove_dots(t + s.path_a, s.path_b - s.path_a, tmp, 0);
  if (s.has_auth && pn == 0) out[o++] = '/';
  o = or_copy(out, o, tmp, 0, pn);
  o = or_copy(out, o, t, s.path_b, n);
  return o;
}
static int sub_eq(const CH *a, long a1, long a2, const CH *b, long b1, long b2){
  long i; if ((a1 < 0) != (b1 < 0)) return 0; if (a1 < 0) return 1; if (a2 - a1 != b2 - b1) return 0;
  for (i = 0; i < a2 - a1; i++) if (a[a1 + i] != b[b1 + i]) return 0;
  return 1;
}

int main(void){
  CH ts[CAP], tb[CAP], c1[2 * CAP], c2[2 * CAP], tmp[2 * CAP]; CH *st, *bt; long sn, bn, n1, n2, i; URI S, B, D, T; const CH *ep = 0; int rc, root, len = 0, dl = 0; CH *got, *dtext;
  os_split_t ss, bs; int same_scheme, same_auth;
  sn = gen_uri(ts, SFLAGS, KS, SEGL, "s"); st = exact(ts, sn, "source");
  bn = gen_uri(tb, BFLAGS, KB, SEGL, "b"); bt = exact(tb, bn, "base");
  uk_note_text("source", st, sn, sizeof(CH)); uk_note_text("base", bt, bn, sizeof(CH));
  if (U(uriParseSingleUriExMm)(&S, st, st + sn, &ep, &mm) != URI_SUCCESS){ uk_assume(0); return 0; }
  if (U(uriParseSingleUriExMm)(&B, bt, bt + bn, &ep, &mm) != URI_SUCCESS){ U(uriFreeUriMembersMm)(&S, &mm); uk_assume(0); return 0; }
#ifdef CHAIN3
  /* three-operation histories: the source is itself a produced URI (normalised in place, hence owned with rebuilt segments);
     the class predicates and the expected result below are then taken from its recomposed text */
  { int l0 = 0; rc = U(uriNormalizeSyntaxExMm)(&S, URI_NORMALIZE_PATH | URI_NORMALIZE_SCHEME | URI_NORMALIZE_HOST, &mm);
    if (rc != URI_SUCCESS){ U(uriFreeUriMembersMm)(&S, &mm); U(uriFreeUriMembersMm)(&B, &mm); uk_assume(0); return 0; }
    chk_reparse_stable(&S);
    st = recompose(&S, &l0); sn = l0; uk_note_text("source-normalised", st, sn, sizeof(CH)); uk_cover("source-produced"); }
#endif
  os_split(st, sn, &ss); os_split(bt, bn, &bs);
  root = uk_choice(2, "domainRoot");
  ro_uri(&S); ro_uri(&B);
  mm_armed = 1;
  rc = U(uriRemoveBaseUriMm)(&D, &S, &B, root ? URI_TRUE : URI_FALSE, &mm);
  mm_armed = 0;
  rw_uri(&S); rw_uri(&B);
#ifdef FAILING
  if (mm_failed){
    uk_assert(rc == URI_ERROR_MALLOC, "C14: reference creation with a failed allocation returns URI_ERROR_MALLOC");
    U(uriFreeUriMembersMm)(&D, &mm);
    U(uriFreeUriMembersMm)(&S, &mm); U(uriFreeUriMembersMm)(&B, &mm);
    uk_assert(uk_live() == 0, "C14: nothing stays allocated after a failed reference creation and cleanup of the output");
    uk_cover("alloc-failure-injected"); return 0;
  }
#endif
  if (bs.sch_a < 0 || ss.sch_a < 0){
    if (bs.sch_a < 0) uk_assert(rc == URI_ERROR_REMOVEBASE_REL_BASE, "C10: a base without scheme is rejected with URI_ERROR_REMOVEBASE_REL_BASE");
    else uk_assert(rc == URI_ERROR_REMOVEBASE_REL_SOURCE, "C10: a source without scheme is rejected with URI_ERROR_REMOVEBASE_REL_SOURCE");
    uk_cover("non-absolute-rejected");
    U(uriFreeUriMembersMm)(&D, &mm);
    goto done;
  }
  uk_assert(rc == URI_SUCCESS, "C10: reference creation for two absolute URIs succeeds");
  if (rc != URI_SUCCESS) goto done;
  same_scheme = sub_eq(st, ss.sch_a, ss.sch_b, bt, bs.sch_a, bs.sch_b);
  same_auth = ss.has_auth == bs.has_auth && sub_eq(st, ss.ui_a, ss.ui_b, bt, bs.ui_a, bs.ui_b) && ss.hostkind == bs.hostkind
              && sub_eq(st, ss.host_a, ss.host_b, bt, bs.host_a, bs.host_b) && sub_eq(st, ss.port_a, ss.port_b, bt, bs.port_a, bs.port_b);
  dtext = recompose(&D, &dl); uk_note_text("reference", dtext, dl, sizeof(CH));
  /* classes of inputs for which reference creation is known to be wrong (known_findings.json); predicates over S and B only */
  { int kf = 0, k, common = 0, nS = ss.nseg, nB = bs.nseg, lists_equal;
    for (k = 0; k < nS && k < nB; k++){ if (!sub_eq(st, ss.seg_a[k], ss.seg_b[k], bt, bs.seg_a[k], bs.seg_b[k])) break; common++; }
    lists_equal = (nS == nB && common == nS);
#ifdef KF_C10_NOAUTHSRC
    /* S has no authority but B has one: a scheme-less reference cannot say "no authority" */
    if (same_scheme && !ss.has_auth && bs.has_auth) kf = 1;
#endif
#ifdef KF_C10_WALK
    /* the common-prefix walk runs through the last segment of S or of B (one segment list is a prefix of the other),
       except for identical lists where an empty reference (or a query-only one) is right */
    if (same_scheme && same_auth && !root && (common == nS || common == nB)
        && !(lists_equal && ss.abs_path == bs.abs_path && (ss.q_a >= 0 || bs.q_a < 0))) kf = 1;
#endif
#ifdef KF_C10_BASEDOTS
    /* the base path has a "." or ".." segment before its last segment: the walk counts it as a directory level */
    if (same_scheme && same_auth && !root){ int q; for (q = 0; q + 1 < nB; q++) if (or_seg_is_dot(bt, bs.seg_a[q], bs.seg_b[q]) || or_seg_is_dotdot(bt, bs.seg_a[q], bs.seg_b[q])) kf = 1; }
#endif
#ifdef KF_C10_ROOTMIX
    /* no authority on either side and the paths differ in kind (absolute vs rootless): a relative reference cannot switch the kind,
       and domain-root mode makes a rootless source path absolute */
    if (same_scheme && !ss.has_auth && !bs.has_auth && (ss.abs_path != bs.abs_path || (root && !ss.abs_path))) kf = 1;
#endif
    if (kf){ uk_cover("known-finding-class"); goto cleanup; }
  }
  if (!same_scheme) uk_cover("schemes-differ"); else if (same_auth) uk_cover(root ? "same-authority-domain-root" : "same-authority-relative");
#ifdef P_C10
  if (!same_scheme){
    uk_assert(dl == sn, "C10: with differing schemes the reference is the source unchanged (length)");
    if (dl == sn) for (i = 0; i < sn; i++) uk_assert(dtext[i] == st[i], "C10: with differing schemes the reference is the source unchanged");
  } else if (!(!ss.has_auth && bs.has_auth)) {
    /* a reference without scheme can resolve to S */
    uk_assert(D.scheme.first == 0, "C10: the reference omits the scheme shared with the base");
    uk_assert(host_set(&D) == !same_auth, "C10: the reference omits the authority exactly when source and base share user info, host and port");
    if (same_auth && root && (ss.has_auth || ss.abs_path)) uk_assert(D.absolutePath == URI_TRUE, "C10: in domain-root mode the reference path is absolute");
  }
  /* inverse of resolution */
  rc = U(uriAddBaseUriExMm)(&T, &D, &B, URI_RESOLVE_STRICTLY, &mm);
  uk_assert(rc == URI_SUCCESS, "C10: the produced reference resolves against the base");
  if (rc == URI_SUCCESS){
    got = recompose(&T, &len); uk_note_text("resolved", got, len, sizeof(CH));
    n1 = canon(got, len, c1, tmp); n2 = canon(st, sn, c2, tmp);
    uk_assert(n1 == n2, "C10: the reference resolves against the base back to the source (length, after dot-segment normalisation)");
    if (n1 == n2) for (i = 0; i < n1; i++) uk_assert(c1[i] == c2[i], "C10: the reference resolves against the base back to the source (after dot-segment normalisation)");
    U(uriFreeUriMembersMm)(&T, &mm);
  }
  /* the same through the text: the reference written with uriToString, parsed again and resolved */
  { URI D2, T2; const CH *e2 = 0; int l2 = 0;
    rc = U(uriParseSingleUriExMm)(&D2, dtext, dtext + dl, &e2, &mm);
    uk_assert(rc == URI_SUCCESS, "C10: the produced reference is a valid URI reference when written out");
    if (rc == URI_SUCCESS){
      rc = U(uriAddBaseUriExMm)(&T2, &D2, &B, URI_RESOLVE_STRICTLY, &mm);
      uk_assert(rc == URI_SUCCESS, "C10: the written reference resolves against the base");
      if (rc == URI_SUCCESS){ CH *g2 = recompose(&T2, &l2); n1 = canon(g2, l2, c1, tmp); n2 = canon(st, sn, c2, tmp);
        uk_assert(n1 == n2, "C10: the written reference resolves against the base back to the source (length)");
        if (n1 == n2) for (i = 0; i < n1; i++) uk_assert(c1[i] == c2[i], "C10: the written reference resolves against the base back to the source");
        U(uriFreeUriMembersMm)(&T2, &mm); }
      U(uriFreeUriMembersMm)(&D2, &mm); } }
#endif
#ifdef P_C07
  chk_reparse_stable(&D);
#ifdef CHAIN3
  /* third operation: the created reference is resolved again; the result must survive the text round trip as well */
  rc = U(uriAddBaseUriExMm)(&T, &D, &B, URI_RESOLVE_STRICTLY, &mm);
  if (rc == URI_SUCCESS){ chk_reparse_stable(&T); uk_cover("third-operation"); U(uriFreeUriMembersMm)(&T, &mm); }
#endif
#endif
#ifdef P_C05
  chk_tostring_contract(&D);
#endif
cleanup:
  U(uriFreeUriMembersMm)(&D, &mm);
done:
  U(uriFreeUriMembersMm)(&S, &mm); U(uriFreeUriMembersMm)(&B, &mm);
  uk_assert(uk_live() == 0, "C13: all blocks returned after freeing reference, source and base");
  uk_assert(uk_libc_calls() == 0, "C13: no C library allocator call while a custom manager is supplied");
  (void)len; (void)got; (void)n1; (void)n2; (void)same_scheme; (void)same_auth; (void)dtext; (void)dl;
  return 0;
}
