/* Native implementation of uk.h for replaying a solver counterexample against the real build (ASan/UBSan).
 * Input values are read from the file named by $UK_REPLAY, one integer per line, in the order the harness
 * requests them (the executor records them in the same order). Exit code 17 = a harness assertion failed. */
#include <stdio.h>
#include <stdlib.h>
#include <string.h>
#include <stdint.h>
#include "uk.h"

static FILE *in; static long live; static long libc_live, libc_calls;
/* C library allocator activity is observed through the sanitizer's malloc/free hooks (uk_native itself allocates with mmap) */
extern int __sanitizer_install_malloc_and_free_hooks(void (*malloc_hook)(const volatile void *, size_t), void (*free_hook)(const volatile void *));
static void h_malloc(const volatile void *p, size_t n){ (void)p; (void)n; libc_live++; libc_calls++; }
static void h_free(const volatile void *p){ if (p){ libc_live--; } libc_calls++; }
static void open_replay(void);
__attribute__((constructor)) static void install_hooks(void){ open_replay(); __sanitizer_install_malloc_and_free_hooks(h_malloc, h_free); }   /* stdio allocates its buffer before the hooks count */
static void fail(const char *what, const char *msg){ fprintf(stderr, "UK_%s: %s\n", what, msg); fflush(stderr); _exit(17); }
void _exit(int);
static void open_replay(void){ const char *p = getenv("UK_REPLAY"); long long d; if (!p) return; in = fopen(p, "r"); if (in){ long pos = ftell(in); if (fscanf(in, "%lld", &d) == 1){ } fseek(in, pos, SEEK_SET); } }
static long long next_val(void){
  long long v = 0;
  if (!in) fail("SETUP", "UK_REPLAY not set or not readable");
  if (fscanf(in, "%lld", &v) != 1) v = 0;   /* inputs beyond the recorded ones are unconstrained: use 0 */
  return v;
}
void uk_sym_bytes(void *p, size_t n, const char *name){ size_t i; (void)name; for (i = 0; i < n; i++) ((unsigned char *)p)[i] = (unsigned char)next_val(); }
void uk_sym_words(void *p, size_t n, const char *name){ size_t i; (void)name; for (i = 0; i < n; i++) ((uint32_t *)p)[i] = (uint32_t)next_val(); }
int  uk_sym_int(const char *name){ (void)name; return (int)next_val(); }
long uk_sym_long(const char *name){ (void)name; return (long)next_val(); }
int  uk_choice(int n, const char *name){ long long v; if (n <= 1) return 0; /* no input is recorded for a choice among one */ v = next_val(); (void)name; if (v < 0 || v >= n) fail("SETUP", "choice out of range"); return (int)v; }
void uk_assume(int c){ if (!c){ fprintf(stderr, "UK_ASSUME_FALSE\n"); exit(0); } }
void uk_assert(int c, const char *msg){ if (!c) fail("ASSERT_FAIL", msg); }
void uk_cover(const char *label){ (void)label; }
void uk_note_text(const char *label, const void *p, long n, int es){ long i; fprintf(stderr, "text %s=\"", label); for (i = 0; i < n; i++){ unsigned long c = es == 1 ? ((const unsigned char *)p)[i] : ((const uint32_t *)p)[i]; if (c >= 32 && c < 127) fputc((int)c, stderr); else fprintf(stderr, "\\x%02lx", c); } fprintf(stderr, "\"\n"); }
void uk_note(const char *label, long v){ fprintf(stderr, "note %s=%ld\n", label, v); }

/* Blocks and buffers are page-fenced (one mapping each, the object ends at the last byte before a PROT_NONE guard page), so
 * that an over-read by one character faults and uk_readonly can make the object really read-only (mprotect): a store to a
 * read-only input faults even when it stores the value already there.  Freed blocks are unmapped (use after free faults). */
#include <sys/mman.h>
#include <unistd.h>
#define MAXBLK 8192
static struct { char *base; size_t maplen; char *ptr; size_t n; int heap; } blk[MAXBLK]; static int nblk;
static void *fenced(size_t n, int heap){
  size_t pg = (size_t)sysconf(_SC_PAGESIZE), data = ((n ? n : 1) + pg - 1) / pg * pg, align = heap ? 16 : (n % 8 == 0 ? 8 : n % 4 == 0 ? 4 : 1), used;
  char *base = mmap(0, data + pg, PROT_READ | PROT_WRITE, MAP_PRIVATE | MAP_ANONYMOUS, -1, 0), *p; int i;
  if (base == MAP_FAILED) fail("SETUP", "mmap");
  mprotect(base + data, pg, PROT_NONE);
  used = (n + align - 1) / align * align; p = base + data - used;       /* heap blocks are 16-aligned like malloc; buffers end exactly at the fence */
  for (i = 0; i < nblk; i++) if (!blk[i].base) break;
  if (i == nblk){ if (nblk == MAXBLK) fail("SETUP", "too many blocks"); nblk++; }
  blk[i].base = base; blk[i].maplen = data + pg; blk[i].ptr = p; blk[i].n = n; blk[i].heap = heap;
  { size_t k; for (k = n; k < used; k++) p[k] = (char)0xA5; }      /* alignment slack of heap blocks carries a canary */
  return p;
}
/* a store beyond a heap block that stays inside its 16-byte alignment slack does not reach the guard page: the canary shows it */
static void slack_check(int i){ size_t k, used = (blk[i].n + 15) / 16 * 16; if (!blk[i].heap) return;
  for (k = blk[i].n; k < used; k++) if (blk[i].ptr[k] != (char)0xA5) fail("MEM", "store beyond the end of a heap block (alignment slack overwritten)"); }
static void slack_check_all(void){ int i; for (i = 0; i < nblk; i++) if (blk[i].base) slack_check(i); }
static int find_blk(const void *p){ int i; for (i = 0; i < nblk; i++) if (blk[i].base && (const char *)p >= blk[i].ptr && (const char *)p < blk[i].ptr + (blk[i].n ? blk[i].n : 1)) return i; return -1; }
void *uk_malloc(size_t n){ static int reg; if (!reg){ atexit(slack_check_all); reg = 1; } live++; return fenced(n, 1); }
void uk_free(void *p){ int i; if (!p) return; i = find_blk(p); if (i < 0 || !blk[i].heap || blk[i].ptr != (char *)p) fail("HEAP", "free of a pointer that is not the base of a live block of this manager"); slack_check(i); live--; munmap(blk[i].base, blk[i].maplen); blk[i].base = 0; }
size_t uk_blocksize(const void *p){ int i = find_blk(p); if (i < 0 || !blk[i].heap || blk[i].ptr != (const char *)p) fail("HEAP", "realloc of a pointer that is not the base of a live block"); return blk[i].n; }
long uk_live(void){ return live; }
long uk_live_libc(void){ return libc_live; }
long uk_libc_calls(void){ return libc_calls; }
void *uk_buf(size_t n, const char *name){ void *p = fenced(n, 0); (void)name; memset(p, 0, n); return p; }
static void protect(const void *p, int prot){ int i = find_blk(p); if (i >= 0){ size_t pg = (size_t)sysconf(_SC_PAGESIZE); mprotect(blk[i].base, blk[i].maplen - pg, prot); } }

#define MAXRO 256
static struct { const void *p; size_t n; unsigned char *snap; int kind; } ro[MAXRO]; static int nro;
static void ro_check(int i){ if (ro[i].snap && memcmp(ro[i].p, ro[i].snap, ro[i].n) != 0) fail("MEM", ro[i].kind ? "store beyond the capacity limit" : "store to read-only object"); }
static void ro_check_all(void){ int i; for (i = 0; i < nro; i++) if (ro[i].p) ro_check(i); }
void uk_readonly(const void *p, size_t n){ static int reg; if (!reg){ atexit(ro_check_all); reg = 1; } if (!p || !n) return; protect(p, PROT_READ); if (nro == MAXRO) return; ro[nro].p = p; ro[nro].n = n; ro[nro].snap = fenced(n, 0); memcpy(ro[nro].snap, p, n); ro[nro].kind = 0; nro++; }
void uk_writable(const void *p){ int i; protect(p, PROT_READ | PROT_WRITE); for (i = 0; i < nro; i++) if (ro[i].p == p && ro[i].kind == 0){ ro_check(i); ro[i].p = 0; ro[i].snap = 0; } }
void uk_kill(const void *p, size_t n){ int i = find_blk(p); (void)n; if (i >= 0){ size_t pg = (size_t)sysconf(_SC_PAGESIZE); mprotect(blk[i].base, blk[i].maplen - pg, PROT_NONE); } else if (p && n) memset((void *)p, 0xA5, n); }   /* any later access faults */
void uk_watch(const void *p, size_t nbytes){ (void)p; (void)nbytes; }
void uk_limit(const void *p, long nelem, int elsize){
  /* snapshot everything at and beyond the limit up to the end of the buffer; compared at uk_unlimit */
  int i = find_blk(p); size_t sz, lim = nelem < 0 ? 0 : (size_t)nelem;
  if (i < 0) return;
  sz = blk[i].n - (size_t)((const char *)p - blk[i].ptr);
  if (lim * (size_t)elsize >= sz) return;
  if (nro == MAXRO) return;
  ro[nro].p = (const char *)p + lim * (size_t)elsize; ro[nro].n = sz - lim * (size_t)elsize; ro[nro].snap = fenced(ro[nro].n, 0);
  memcpy(ro[nro].snap, ro[nro].p, ro[nro].n); ro[nro].kind = 1; nro++;
}
void uk_unlimit(const void *p){ int i; for (i = 0; i < nro; i++) if (ro[i].p && ro[i].kind == 1 && (const char *)ro[i].p >= (const char *)p){ ro_check(i); ro[i].p = 0; ro[i].snap = 0; } }
int  uk_is_heap(const void *p){ (void)p; return 1; }
void uk_fail(const char *msg){ fail("ASSERT_FAIL", msg); }
void uk_exit(void){ exit(0); }
