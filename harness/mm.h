/* ledger memory manager used by all harnesses; FAILING adds one symbolic boolean per allocation request */
#ifndef MM_H
#define MM_H
#include <string.h>
#include <uriparser/Uri.h>
#include "uk.h"
static int mm_requests, mm_failed, mm_frees, mm_armed;   /* failures are injected only while mm_armed is set (around the call under test) */
#ifdef FAILING
#define MM_MAYFAIL() do { mm_requests++; if (mm_armed && uk_choice(2, "fail")) { mm_failed++; return 0; } } while (0)
#else
#define MM_MAYFAIL() do { mm_requests++; } while (0)
#endif
static void *mm_malloc(UriMemoryManager *m, size_t n){ (void)m; MM_MAYFAIL(); return uk_malloc(n); }
static void *mm_calloc(UriMemoryManager *m, size_t a, size_t b){ void *p; (void)m; MM_MAYFAIL(); p = uk_malloc(a * b); memset(p, 0, a * b); return p; }
static void *mm_realloc(UriMemoryManager *m, void *p, size_t n){ (void)m; (void)p; (void)n; uk_fail("manager realloc called"); return 0; }
static void *mm_reallocarray(UriMemoryManager *m, void *p, size_t a, size_t b){ (void)m; (void)p; (void)a; (void)b; uk_fail("manager reallocarray called"); return 0; }
static void mm_free(UriMemoryManager *m, void *p){ (void)m; mm_frees++; uk_free(p); }
static UriMemoryManager mm = { mm_malloc, mm_calloc, mm_realloc, mm_reallocarray, mm_free, 0 };
#endif
