/* ledger memory manager used by all harnesses; FAILING adds one symbolic boolean per allocation request */
#ifndef MM_H
#define MM_H
#include <string.h>
#include <uriparser/Uri.h>
#include "uk.h"
static int mm_requests, mm_failed, mm_frees, mm_armed;   /* failures are injected only while mm_armed is set (around the call under test) */
#ifdef FAILING
#define MM_MAYFAIL() do { mm_requests++; if (mm_armed && uk_choice(2, "fail")) { mm_failed++; return 0; } } while (0)
#else
#define MM_MAYFAIL() do { mm_requests++; } while (0)
#endif
static void *mm_malloc(UriMemoryManager *m, size_t n){ (void)m; MM_MAYFAIL(); return uk_malloc(n); }
static void *mm_calloc(UriMemoryManager *m, size_t a, size_t b){ void *p; (void)m; MM_MAYFAIL(); p = uk_malloc(a * b); memset(p, 0, a * b); return p; }
static void mm_free(UriMemoryManager *m, void *p);
/* realloc always moves to a new exact-size block (the strictest behaviour the C standard allows): stale pointers and reads beyond a shrunk size are caught */
static void *mm_realloc(UriMemoryManager *m, void *p, size_t n){ size_t old; void *q; if (!p) return mm_malloc(m, n); if (n == 0){ mm_free(m, p); return 0; }
  MM_MAYFAIL(); old = uk_blocksize(p); q = uk_malloc(n); memcpy(q, p, old < n ? old : n); uk_free(p); return q; }
static void *mm_reallocarray(UriMemoryManager *m, void *p, size_t a, size_t b){ if (a != 0 && b > (size_t)-1 / a) return 0; return mm_realloc(m, p, a * b); }
static void mm_free(UriMemoryManager *m, void *p){ (void)m; mm_frees++; uk_free(p); }
static UriMemoryManager mm = { mm_malloc, mm_calloc, mm_realloc, mm_reallocarray, mm_free, 0 };
#endif
