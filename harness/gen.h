/* Shape-bounded URI text generator: the delimiters are placed by symbolic skeleton choices, every other character is a
 * symbolic value constrained only to its RFC 3986 character class. */
#ifndef GEN_H
#define GEN_H
#include "common.h"

#define G_SCHEME_REQ   0x001   /* scheme always present */
#define G_SCHEME_OPT   0x002   /* scheme present or absent */
#define G_AUTH         0x004   /* authority present or absent */
#define G_USERINFO     0x008   /* user info absent / empty / 1..GEN_COMP_L characters */
#define G_PORT         0x010   /* port absent / empty / 1..GEN_COMP_L digits */
#define G_QUERY        0x020
#define G_FRAG         0x040
#define G_HOSTKINDS    0x080   /* reg-name, IPv4, IPv6 (full lowercase form), IPvFuture */
#define G_PCT          0x100   /* path/host/query characters may be percent-encoded triplets */
#define G_EMPTYHOST    0x200
#define G_AUTH_REQ     0x400
#define G_SCHEME2      0x800   /* scheme of one or two symbolic letters */

/* character classes as pure functions (evaluated to one ite term, no forking) */
static int g_is_alpha(unsigned long c){ return (c >= 'a' && c <= 'z') || (c >= 'A' && c <= 'Z'); }
static int g_is_digit(unsigned long c){ return c >= '0' && c <= '9'; }
static int g_is_hex(unsigned long c){ return (c >= '0' && c <= '9') || (c >= 'a' && c <= 'f') || (c >= 'A' && c <= 'F'); }
static int g_is_unres(unsigned long c){ return g_is_alpha(c) || g_is_digit(c) || c == '-' || c == '.' || c == '_' || c == '~'; }
static int g_is_subdelim(unsigned long c){ switch (c){ case '!': case '$': case '&': case '\'': case '(': case ')': case '*': case '+': case ',': case ';': case '=': return 1; default: return 0; } }
static int g_is_pchar_nopct(unsigned long c){ return g_is_unres(c) || g_is_subdelim(c) || c == ':' || c == '@'; }
static int g_is_regname_nopct(unsigned long c){ return g_is_unres(c) || g_is_subdelim(c); }
static int g_is_userinfo_nopct(unsigned long c){ return g_is_unres(c) || g_is_subdelim(c) || c == ':'; }
static int g_is_query_nopct(unsigned long c){ return g_is_pchar_nopct(c) || c == '/' || c == '?'; }

static CH g_sym(const char *name){
#ifdef WIDE
  CH c; uk_sym_words(&c, 1, name); return c;
#else
  CH c; uk_sym_bytes(&c, 1, name); return c;
#endif
}
#define G_CLS_PCHAR 0
#define G_CLS_REGNAME 1
#define G_CLS_USERINFO 2
#define G_CLS_QUERY 3
/* By default the "filler" characters are symbolic lowercase letters (one parser class) and path characters are
 * lowercase letters or '.', plus ':' and '@'/sub-delims with GEN_PATH_COLON; with GEN_WIDE_CHARS every position ranges
 * over its full RFC 3986 class. */
static int g_is_lower(unsigned long c){ return c >= 'a' && c <= 'z'; }
static int g_in_class(int cls, unsigned long c){
#ifndef GEN_WIDE_CHARS
  if (cls == G_CLS_PCHAR)
#ifdef GEN_PATH_COLON
    return g_is_lower(c) || c == '.' || c == ':';
#else
    return g_is_lower(c) || c == '.';
#endif
#ifdef GEN_ALPHA_CASE
  if (cls == G_CLS_REGNAME) return g_is_alpha(c);    /* case matters for scheme and host only */
#endif
  return g_is_lower(c);
#endif
  return cls == G_CLS_PCHAR ? g_is_pchar_nopct(c) : cls == G_CLS_REGNAME ? g_is_regname_nopct(c) : cls == G_CLS_USERINFO ? g_is_userinfo_nopct(c) : g_is_query_nopct(c);
}
/* one "character": a plain class member, or (with G_PCT) a percent-encoded triplet */
#ifndef GEN_PCT_MAX
#define GEN_PCT_MAX 1
#endif
#ifdef GEN_REGNAME_FUTURELIKE
#define GEN_NHOSTKINDS 5
#else
#define GEN_NHOSTKINDS 4
#endif
#ifndef GEN_COMP_L
#define GEN_COMP_L 1   /* maximal length of user info, port, query and fragment */
#endif
static int g_pct_used;
static long g_tok(CH *d, long n, int cls, int flags, const char *name){
  if ((flags & G_PCT) && g_pct_used < GEN_PCT_MAX && uk_choice(2, "pct")){
    g_pct_used++;
    CH h1 = g_sym(name), h2 = g_sym(name);
    uk_assume(g_is_hex(CHV(h1))); uk_assume(g_is_hex(CHV(h2)));
    d[n++] = '%'; d[n++] = h1; d[n++] = h2;
  } else {
    CH c = g_sym(name); uk_assume(g_in_class(cls, CHV(c))); d[n++] = c;
  }
  return n;
}
static long g_run(CH *d, long n, int maxlen, int cls, int flags, const char *name){
  int len = uk_choice(maxlen + 1, "len"), i;
  for (i = 0; i < len; i++) n = g_tok(d, n, cls, flags, name);
  return n;
}
static long g_lit(CH *d, long n, const char *s){ while (*s) d[n++] = (CH)*s++; return n; }

/* Build a URI reference into d (capacity must be sufficient: see GEN_CAP). K segments of at most L characters. */
#define GEN_CAP(K, L) (2 + 3 + 4 + 45 + 3 + ((K) * (3 * (L) + 1)) + 5 + 5 + 8 + 12 * GEN_COMP_L)
static long gen_uri(CH *d, int flags, int K, int L, const char *name){
  long n = 0; int has_scheme = 0, has_auth = 0, k, nseg, lead;
  if ((flags & G_SCHEME_REQ) || ((flags & G_SCHEME_OPT) && uk_choice(2, "scheme"))){
    CH c = g_sym(name); uk_assume(g_is_alpha(CHV(c))); d[n++] = c;
    if ((flags & G_SCHEME2) && uk_choice(2, "scheme2")){ c = g_sym(name); uk_assume(g_is_alpha(CHV(c))); d[n++] = c; }
    d[n++] = ':'; has_scheme = 1;
  }
  if ((flags & G_AUTH_REQ) || ((flags & G_AUTH) && uk_choice(2, "auth"))){
    has_auth = 1; d[n++] = '/'; d[n++] = '/';
    if (flags & G_USERINFO){ int u = uk_choice(2 + GEN_COMP_L, "userinfo"), q; if (u >= 1){ for (q = 1; q < u; q++) n = g_tok(d, n, G_CLS_USERINFO, flags, name); d[n++] = '@'; } }
    { int hk = (flags & G_HOSTKINDS) ? uk_choice(GEN_NHOSTKINDS, "hostkind") : 0;
      if (hk == 4){ /* GEN_REGNAME_FUTURELIKE: a reg-name spelled like the inside of an IPvFuture literal */
        CH c = g_sym(name); uk_assume(g_is_regname_nopct(CHV(c))); n = g_lit(d, n, "v1."); d[n++] = c;
      } else if (hk == 0){
        if (flags & G_EMPTYHOST) n = g_run(d, n, 2, G_CLS_REGNAME, flags, name);
        else { n = g_tok(d, n, G_CLS_REGNAME, flags, name); n = g_run(d, n, 1, G_CLS_REGNAME, flags, name); }
#ifdef GEN_IP4_FULL
      } else if (hk == 1){ /* dotted quad with the first and last number of 1..3 fully symbolic digits (000..999): IPv4 when both <= 255 without leading zero, else reg-name */
        int q, l0 = 1 + uk_choice(3, "octet0len"), l3 = 1 + uk_choice(3, "octet3len");
        for (q = 0; q < l0; q++){ CH c = g_sym(name); uk_assume(g_is_digit(CHV(c))); d[n++] = c; }
        n = g_lit(d, n, ".0.0.");
        for (q = 0; q < l3; q++){ CH c = g_sym(name); uk_assume(g_is_digit(CHV(c))); d[n++] = c; }
#else
      } else if (hk == 1){ /* IPv4: d.0.0.1d or d.0.0.1dd (octets 0..9, 10..19, 100..199) */
        CH c = g_sym(name); uk_assume(g_is_digit(CHV(c))); d[n++] = c; n = g_lit(d, n, ".0.0."); c = g_sym(name); uk_assume(g_is_digit(CHV(c))); d[n++] = '1'; d[n++] = c;
        if (uk_choice(2, "octet3")){ c = g_sym(name); uk_assume(g_is_digit(CHV(c))); d[n++] = c; }
#endif
      }
      else if (hk == 2){ CH c = g_sym(name); uk_assume(g_is_hex(CHV(c)) && !(CHV(c) >= 'A' && CHV(c) <= 'F')); n = g_lit(d, n, "[0000:0000:0000:0000:0000:0000:0000:000"); d[n++] = c; d[n++] = ']'; }
      else { CH c = g_sym(name); uk_assume(g_is_regname_nopct(CHV(c)) || CHV(c) == ':'); n = g_lit(d, n, "[v1."); d[n++] = c; d[n++] = ']'; }
    }
    if (flags & G_PORT){ int p = uk_choice(2 + GEN_COMP_L, "port"), q; if (p >= 1){ d[n++] = ':'; for (q = 1; q < p; q++){ CH c = g_sym(name); uk_assume(g_is_digit(CHV(c))); d[n++] = c; } } }
  }
  /* path: nseg segments; leading slash optional unless an authority is present */
  nseg = uk_choice(K + 1, "nseg");
  if (has_auth) lead = nseg > 0; else lead = uk_choice(2, "lead");
  if (lead) d[n++] = '/';
  for (k = 0; k < nseg; k++){
    if (k > 0) d[n++] = '/';
    n = g_run(d, n, L, G_CLS_PCHAR, flags, name);
  }
  if ((flags & G_QUERY) && uk_choice(2, "query")){ d[n++] = '?'; n = g_run(d, n, GEN_COMP_L, G_CLS_QUERY, flags, name); }
  if ((flags & G_FRAG) && uk_choice(2, "frag")){ d[n++] = '#'; n = g_run(d, n, GEN_COMP_L, G_CLS_QUERY, flags, name); }
  (void)has_scheme;
  return n;
}
#endif
