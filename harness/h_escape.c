/* h_escape: uriEscapeEx / uriUnescapeInPlaceEx against oracle E.  Serves C16. MODE_ESC: escape + round trip; MODE_UNESC: decoder on arbitrary strings. */
#include "common.h"
#include "oracle_escape.h"
#ifndef NMAX
#define NMAX 3
#endif
#define MAXN (NMAX + 1)
int main(void){
  long n = uk_choice(NMAX + 1, "len"), i;
#ifdef MODE_ESC
  int s2p = uk_choice(2, "spaceToPlus"), nb = uk_choice(2, "normalizeBreaks"), nulterm = uk_choice(2, "nulTerminated");
  long cap = (nb ? 6 : 3) * n + 1, en, rn, dn;
  CH *in = uk_buf((size_t)(n + (nulterm ? 1 : 0)) * sizeof(CH), "in"), *out = uk_buf((size_t)cap * sizeof(CH), "out"), *end; const CH *e2;
  unsigned long cin[MAXN], cexp[6 * MAXN + 1], cback[2 * MAXN + 1];
  SYM_TEXT(in, (size_t)n, "t");
  for (i = 0; i < n; i++){ uk_assume(CHV(in[i]) >= 1 && CHV(in[i]) <= 255); cin[i] = CHV(in[i]); }
  if (nulterm) in[n] = 0;
  uk_readonly(in, (size_t)(n + (nulterm ? 1 : 0)) * sizeof(CH));
  uk_note_text("in", in, n, sizeof(CH));
  end = U(uriEscapeEx)(in, nulterm ? 0 : in + n, out, s2p ? URI_TRUE : URI_FALSE, nb ? URI_TRUE : URI_FALSE);
  en = oe_escape(cin, n, cexp, s2p, nb);
  uk_assert(end != 0 && end >= out && end - out <= (nb ? 6 : 3) * n, "C16: escaped output is at most 3 (6 with break normalisation) times the input");
  uk_assert(*end == 0, "C16: the returned pointer is the terminator of the output");
  uk_assert(end - out == en, "C16: escaped text has the reference length");
  if (end - out == en) for (i = 0; i < en; i++){
    unsigned long c = CHV(out[i]);
    uk_assert(c == cexp[i], "C16: escaped text equals the reference escaping");
    uk_assert(oe_unreserved(c) || c == '%' || (c == '+' && s2p) || ((c >= '0' && c <= '9') || (c >= 'A' && c <= 'F')), "C16: output consists of unreserved characters, %XX with upper-case hex and optionally '+'");
  }
  /* round trip with the matching option */
  e2 = U(uriUnescapeInPlaceEx)(out, s2p ? URI_TRUE : URI_FALSE, URI_BR_DONT_TOUCH);
  if (nb) rn = oe_breaks_to_crlf(cin, n, cback); else { rn = n; for (i = 0; i < n; i++) cback[i] = cin[i]; }
  uk_assert(e2 == out + rn, "C16: unescaping the escaped text restores the original length");
  if (e2 == out + rn){ uk_assert(out[rn] == 0, "C16: unescaped text is terminated"); for (i = 0; i < rn; i++) uk_assert(CHV(out[i]) == cback[i], "C16: unescaping the escaped text restores the original characters"); }
  if (nb) uk_cover("normalize-breaks"); if (s2p) uk_cover("space-to-plus"); if (nulterm) uk_cover("nul-terminated"); else uk_cover("explicit-range");
  (void)dn;
#else
  int p2s = uk_choice(2, "plusToSpace"), br = uk_choice(4, "breakConversion"); long rn; const CH *e;
  CH *s; unsigned long cin[3 * MAXN], cexp[6 * MAXN + 1];
#ifdef TOKENS
  /* NMAX tokens, each a symbolic character, a %XY triplet or a truncated pair %X with symbolic hex digits: reaches sequences like "%0D+%0A", "%0D%0%0A" */
  { CH tmp[3 * MAXN]; long k = 0, t, nt = n;
    for (t = 0; t < nt; t++){
      int kind = uk_choice(3, "triplet");   /* 0: any character, 1: %XY, 2: truncated pair %X */
      if (kind == 1){ CH h1, h2; SYM_TEXT(&h1, 1, "x"); SYM_TEXT(&h2, 1, "x"); uk_assume(oe_ishex(CHV(h1)) && oe_ishex(CHV(h2))); tmp[k++] = '%'; tmp[k++] = h1; tmp[k++] = h2; }
      else if (kind == 2){ CH h1; SYM_TEXT(&h1, 1, "x"); uk_assume(oe_ishex(CHV(h1))); tmp[k++] = '%'; tmp[k++] = h1; }
      else { CH c; SYM_TEXT(&c, 1, "t"); tmp[k++] = c; } }
    n = k; s = uk_buf((size_t)(n + 1) * sizeof(CH), "inout"); for (i = 0; i < n; i++) s[i] = tmp[i]; }
#else
  s = uk_buf((size_t)(n + 1) * sizeof(CH), "inout");
  SYM_TEXT(s, (size_t)n, "t");
#endif
  for (i = 0; i < n; i++){
#ifdef WIDE
    uk_assume(CHV(s[i]) != 0);
#else
    uk_assume(CHV(s[i]) >= 1);
#endif
    cin[i] = CHV(s[i]); }
  s[n] = 0;
  uk_note_text("in", s, n, sizeof(CH));
  e = U(uriUnescapeInPlaceEx)(s, p2s ? URI_TRUE : URI_FALSE, br == 0 ? URI_BR_TO_LF : br == 1 ? URI_BR_TO_CRLF : br == 2 ? URI_BR_TO_CR : URI_BR_DONT_TOUCH);
  rn = oe_unescape(cin, n, cexp, p2s, br);
  uk_assert(e >= s && e - s <= n, "C16: unescaping never lengthens the string");
  uk_assert(e - s == rn, "C16: unescaped text has the reference length (every well-formed triplet decoded, malformed ones untouched)");
  if (e - s == rn){ uk_assert(*e == 0, "C16: the returned pointer is the terminator"); for (i = 0; i < rn; i++) uk_assert(CHV(s[i]) == cexp[i], "C16: unescaped text equals the reference decoding"); }
  if (rn < n) uk_cover("decoded-something"); else uk_cover("nothing-decoded");
#endif
  return 0;
}
