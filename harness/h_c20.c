/* h_c20: footprint premises behind C20.  Two "threads" work on private outputs while sharing a read-only base URI, query list
 * and texts.  While one thread's calls run, everything owned by the other thread and everything shared is read-only for the
 * executor (any store is a violation on any path); library globals may never be stored to; a call repeated after the other
 * thread's calls returns the same result.  The interleaving quantifier itself is covered by the argument in DESIGN.md 5/C20. */
#include "common.h"
#include "mm.h"
#include "checks.h"
#ifndef NMAX
#define NMAX 3
#endif
static void ro_heap_uri(const URI *u, int on){ if (on) ro_uri(u); else rw_uri(u); }
int main(void){
  static const CH btext[] = { 's',':','/','/','h','/','a','/','b','?','q', 0 }; long bn = 11;
  static const CH qk[] = { 'k',' ','1', 0 }, qv[] = { 'v','&', 0 };
  long n1 = uk_choice(NMAX + 1, "len1"), n2 = uk_choice(NMAX + 1, "len2"), i; CH *t1 = uk_buf((size_t)n1 * sizeof(CH), "text1"), *t2 = uk_buf((size_t)n2 * sizeof(CH), "text2");
  URI B, R1, T1, T1b, D1, P2; const CH *ep = 0; QLIST q; int rc, l1 = 0, l2 = 0, req = 0; CH *s1, *s1b; CH esc[3 * 3 + 1];
  SYM_TEXT(t1, (size_t)n1, "s"); SYM_TEXT(t2, (size_t)n2, "t");
  uk_note_text("ref", t1, n1, sizeof(CH)); uk_note_text("other", t2, n2, sizeof(CH));
  if (U(uriParseSingleUriExMm)(&B, btext, btext + bn, &ep, &mm)) return 0;
  if (U(uriParseSingleUriExMm)(&R1, t1, t1 + n1, &ep, &mm)){ uk_assume(0); return 0; }
  if (U(uriParseSingleUriExMm)(&P2, t2, t2 + n2, &ep, &mm)){ uk_assume(0); return 0; }
  q.key = qk; q.value = qv; q.next = 0;
  /* shared, read-only for everybody from here on */
  uk_readonly(btext, sizeof btext); uk_readonly(t1, (size_t)n1 * sizeof(CH)); ro_uri(&B); uk_readonly(&q, sizeof q); uk_readonly(qk, sizeof qk); uk_readonly(qv, sizeof qv);
  /* ---- thread 1 runs; thread 2's objects are untouchable */
  uk_readonly(t2, (size_t)n2 * sizeof(CH)); ro_heap_uri(&P2, 1); ro_uri(&R1);
  rc = U(uriAddBaseUriExMm)(&T1, &R1, &B, URI_RESOLVE_STRICTLY, &mm); uk_assert(rc == URI_SUCCESS, "C20: resolve succeeds");
  s1 = recompose(&T1, &l1);
  (void)U(uriEqualsUri)(&T1, &B); (void)U(uriNormalizeSyntaxMaskRequired)(&B); (void)U(uriToStringCharsRequired)(&B, &req);
  /* the read-only queries on the shared symbolic reference as well (relative references with several segments included) */
  (void)U(uriEqualsUri)(&R1, &B); (void)U(uriNormalizeSyntaxMaskRequired)(&R1); { unsigned mk = 0; (void)U(uriNormalizeSyntaxMaskRequiredEx)(&R1, &mk); } (void)U(uriToStringCharsRequired)(&R1, &req);
  rc = U(uriRemoveBaseUriMm)(&D1, &T1, &B, URI_FALSE, &mm); uk_assert(rc == URI_SUCCESS, "C20: create reference succeeds");
  rc = U(uriComposeQueryCharsRequired)(&q, &req); uk_assert(rc == URI_SUCCESS, "C20: compose chars required succeeds");
  (void)U(uriEscapeEx)(qk, qk + 3, esc, URI_TRUE, URI_FALSE);
  /* ---- thread 2 runs; thread 1's objects are untouchable */
  ro_heap_uri(&P2, 0); uk_writable(t2);
  ro_uri(&T1); ro_uri(&D1); uk_readonly(s1, (size_t)(l1 + 1) * sizeof(CH));
  rc = U(uriNormalizeSyntaxExMm)(&P2, (unsigned)-1, &mm); uk_assert(rc == URI_SUCCESS, "C20: normalise succeeds");
  rc = U(uriMakeOwnerMm)(&P2, &mm); uk_assert(rc == URI_SUCCESS, "C20: make owner succeeds");
  { QLIST *dl = 0; int cnt = 0; rc = U(uriDissectQueryMallocExMm)(&dl, &cnt, btext + 10, btext + 11, URI_TRUE, URI_BR_DONT_TOUCH, &mm); uk_assert(rc == URI_SUCCESS, "C20: dissect succeeds"); U(uriFreeQueryListMm)(dl, &mm); }
  U(uriFreeUriMembersMm)(&P2, &mm);
  /* ---- thread 1 again: the same call returns what it returned before */
  rc = U(uriAddBaseUriExMm)(&T1b, &R1, &B, URI_RESOLVE_STRICTLY, &mm); uk_assert(rc == URI_SUCCESS, "C20: second resolve succeeds");
  s1b = recompose(&T1b, &l2);
  uk_assert(l1 == l2, "C20: a call repeated after other calls returns the same result (length)");
  if (l1 == l2) for (i = 0; i < l1; i++) uk_assert(s1[i] == s1b[i], "C20: a call repeated after other calls returns the same result");
  rw_uri(&T1); rw_uri(&D1); rw_uri(&R1); rw_uri(&B);
  U(uriFreeUriMembersMm)(&T1, &mm); U(uriFreeUriMembersMm)(&T1b, &mm); U(uriFreeUriMembersMm)(&D1, &mm); U(uriFreeUriMembersMm)(&R1, &mm); U(uriFreeUriMembersMm)(&B, &mm);
  uk_assert(uk_live() == 0, "C13: all blocks returned");
  uk_cover("mixed-workload");
  return 0;
}
