/* CBMC harness for C15: uriCompleteMemoryManager over a logging, failing, size-limited malloc/free backend.
 * A symbolic sequence of OPS operations over SLOTS live blocks with symbolic sizes; allocator contract asserted after each step. */
#include <stdint.h>
#include <stddef.h>
#include <errno.h>
#include <uriparser/Uri.h>
#ifndef OPS
#define OPS 3
#endif
#define SLOTS 2
#ifndef CAP
#define CAP 4              /* largest payload the backend grants (objects stay small; size arithmetic still sees all 64-bit values) */
#endif
#define HDR sizeof(size_t)
unsigned char nondet_uchar(void); size_t nondet_size(void); _Bool nondet_bool(void);
#ifdef REPLAY
#include <stdio.h>
#include <stdlib.h>
static unsigned long long rp_next(void){ static FILE *f; unsigned long long v = 0; if (!f) f = fopen(getenv("UK_REPLAY"), "r"); if (!f || fscanf(f, "%llu", &v) != 1) v = 0; return v; }
unsigned char nondet_uchar(void){ return (unsigned char)rp_next(); } size_t nondet_size(void){ return (size_t)rp_next(); } _Bool nondet_bool(void){ return rp_next() != 0; }
#define ASSERT(c, m) do { if (!(c)){ fprintf(stderr, "ASSERT_FAIL: %s\n", m); exit(17); } } while (0)
#define ASSUME(c) do { if (!(c)) exit(0); } while (0)
#else
#define ASSERT(c, m) __CPROVER_assert(c, m)
#define ASSUME(c) __CPROVER_assume(c)
#endif
/* recorded inputs (so that a counterexample can be replayed natively) */
unsigned long long inp[8 * OPS + 8]; int ninp;
static unsigned long long rec(unsigned long long v){ inp[ninp++] = v; return v; }

/* ---- backend: only malloc and free, may fail, refuses more than HDR+CAP bytes */
#include <stdlib.h>
#define BMAX 8
static void *b_ptr[BMAX]; static int b_used[BMAX], b_live, b_mallocs, b_frees, b_badfree;
static void *b_malloc(UriMemoryManager *m, size_t n){
  int i; void *p; (void)m; b_mallocs++;
  if (rec(nondet_bool())) return 0;                 /* backend failure at any position */
  if (n > HDR + CAP) return 0;
  for (i = 0; i < BMAX; i++) if (!b_used[i]){ p = malloc(n); if (!p) return 0; b_ptr[i] = p; b_used[i] = 1; b_live++; return p; }
  return 0;
}
static void b_free(UriMemoryManager *m, void *p){
  int i; (void)m; b_frees++;
  for (i = 0; i < BMAX; i++) if (b_used[i] && p == b_ptr[i]){ b_used[i] = 0; b_live--; free(p); return; }
  b_badfree = 1;                                    /* not a live pointer the backend returned: double free or foreign/interior pointer */
}

int main(void){
  UriMemoryManager backend = { b_malloc, 0, 0, 0, b_free, 0 }, mm; unsigned char *blk[SLOTS]; size_t sz[SLOTS]; unsigned char shadow[SLOTS][CAP]; int live[SLOTS], s, k, i;
  for (s = 0; s < SLOTS; s++){ blk[s] = 0; sz[s] = 0; live[s] = 0; }
  ASSERT(uriCompleteMemoryManager(&mm, &backend) == URI_SUCCESS, "C15: completing a malloc/free backend succeeds");
  for (k = 0; k < OPS; k++){
    unsigned op = (unsigned)rec(nondet_uchar()) % 5, slot = (unsigned)rec(nondet_uchar()) % SLOTS; size_t a = (size_t)rec(nondet_size()), b = (size_t)rec(nondet_size());
    unsigned char *p; int before = b_live;
    errno = 0;
    if (op == 0 || op == 1){                                                /* malloc / calloc into a free slot */
      if (live[slot]) continue;
      p = op == 0 ? mm.malloc(&mm, a) : mm.calloc(&mm, a, b);
      { size_t want = op == 0 ? a : a * b; int ovf = op == 1 && a != 0 && b > SIZE_MAX / a;
        if (ovf){ ASSERT(p == 0 && errno == ENOMEM, "C15: calloc with an overflowing product fails with ENOMEM"); ASSERT(b_live == before, "C15: nothing allocated on overflow"); continue; }
        if (!p){ ASSERT(b_live == before, "C15: a failed allocation leaves the backend unchanged"); continue; }
        ASSERT(want <= CAP, "C15: granted block fits what the backend granted");
        for (s = 0; s < SLOTS; s++) if (live[s]) ASSERT(p != blk[s], "C15: live blocks are distinct backend blocks");
        if (op == 1) for (i = 0; i < (int)want; i++) ASSERT(p[i] == 0, "C15: calloc memory is zeroed");
        for (i = 0; i < (int)want; i++){ unsigned char v = (unsigned char)rec(nondet_uchar()); p[i] = v; shadow[slot][i] = v; }   /* usable over its full size */
        blk[slot] = p; sz[slot] = want; live[slot] = 1; }
    } else if (op == 2 || op == 3){                                         /* realloc / reallocarray */
      unsigned char *old = live[slot] ? blk[slot] : 0; size_t want = op == 2 ? a : a * b; int ovf = op == 3 && a != 0 && b > SIZE_MAX / a;
      p = op == 2 ? mm.realloc(&mm, old, a) : mm.reallocarray(&mm, old, a, b);
      if (ovf){ ASSERT(p == 0 && errno == ENOMEM, "C15: reallocarray with an overflowing product fails with ENOMEM");
                if (old) for (i = 0; i < (int)sz[slot]; i++) ASSERT(old[i] == shadow[slot][i], "C15: old block intact after a refused reallocarray"); continue; }
      if (old && want == 0){ ASSERT(p == 0, "C15: realloc(p, 0) frees and returns NULL"); ASSERT(b_live == before - 1, "C15: realloc(p, 0) released the block"); live[slot] = 0; continue; }
      if (!p){ ASSERT(b_live == before, "C15: failed realloc leaves the backend unchanged");
               if (old) for (i = 0; i < (int)sz[slot]; i++) ASSERT(old[i] == shadow[slot][i], "C15: old block and contents intact after a failed realloc"); continue; }
      ASSERT(want <= CAP || (old && want <= sz[slot]), "C15: granted size within backend limits");
      { size_t keep = old ? (sz[slot] < want ? sz[slot] : want) : 0;
        for (i = 0; i < (int)keep; i++) ASSERT(p[i] == shadow[slot][i], "C15: realloc preserves the common prefix");
        for (s = 0; s < SLOTS; s++) if (live[s] && s != (int)slot) ASSERT(p != blk[s], "C15: live blocks are distinct backend blocks after realloc");
        if (want <= CAP) for (i = (int)keep; i < (int)want; i++){ unsigned char v = (unsigned char)rec(nondet_uchar()); p[i] = v; shadow[slot][i] = v; }
        blk[slot] = p; if (!(old && want <= sz[slot] && p == old)) sz[slot] = want; else sz[slot] = sz[slot]; live[slot] = 1;
        if (old && p == old) sz[slot] = sz[slot] > want ? sz[slot] : want; }
    } else {                                                                /* free */
      if (!live[slot]){ mm.free(&mm, 0); ASSERT(b_live == before, "C15: free(NULL) does nothing"); continue; }
      for (i = 0; i < (int)sz[slot]; i++) ASSERT(blk[slot][i] == shadow[slot][i], "C15: block contents intact until freed");
      mm.free(&mm, blk[slot]); live[slot] = 0;
      ASSERT(b_live == before - 1, "C15: free releases exactly one backend block");
    }
    ASSERT(!b_badfree, "C15: each backend block is released exactly once with the pointer the backend returned");
  }
  for (s = 0; s < SLOTS; s++) if (live[s]){ mm.free(&mm, blk[s]); live[s] = 0; }
  ASSERT(!b_badfree, "C15: each backend block is released exactly once with the pointer the backend returned");
  ASSERT(b_live == 0, "C15: nothing stays allocated once the caller freed everything");
#ifdef WITNESS
  ASSERT(b_mallocs < 2 || b_frees < 2, "WITNESS: a history with two backend allocations and two releases is reachable");
#endif
  return 0;
}
