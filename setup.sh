#!/bin/sh
# offline setup: nothing to build (the framework is Python + the pre-installed clang-14/llvm-14, z3 wheel in python3-vt, cbmc); just verify the tools exist
set -e
for t in clang-14 opt-14 llvm-link-14 python3-vt cbmc goto-cc; do command -v $t >/dev/null || { echo "missing tool $t"; exit 1; }; done
python3-vt -c "import z3; assert z3.get_version_string() >= '4.8'"
mkdir -p /verif/evidence /verif/build
echo setup ok
