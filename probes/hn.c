#include <uriparser/Uri.h>
#include <assert.h>
#include <string.h>
#include <stdlib.h>
#ifndef K
#define K 3
#endif
#define L 2
char nondet_char(void); _Bool nondet_bool(void); int nondet_int(void);
static char text[K][L];
static void mk(UriUriA *u, int nseg){
  memset(u, 0, sizeof *u);
  UriPathSegmentA *prev = 0;
  for (int i=0;i<K;i++){ if (i>=nseg) break; int len = nondet_int(); __CPROVER_assume(len>=0 && len<=L);
    for (int j=0;j<L;j++){ text[i][j]=nondet_char(); __CPROVER_assume(text[i][j]=='.'||text[i][j]=='a'||text[i][j]==':'); }
    UriPathSegmentA *s = calloc(1, sizeof *s); __CPROVER_assume(s!=0);
    if (len==0){ s->text.first = s->text.afterLast = "X"; } else { s->text.first = text[i]; s->text.afterLast = text[i]+len; }
    if (prev) prev->next = s; else u->pathHead = s; prev = s; }
  u->pathTail = prev;
}
int main(void){
  UriUriA u; int nseg = nondet_int(); __CPROVER_assume(nseg>=0 && nseg<=K);
  mk(&u, nseg); u.absolutePath = nondet_bool();
  int r = uriNormalizeSyntaxExA(&u, URI_NORMALIZE_PATH);
  assert(r == URI_SUCCESS);
  static char buf[3*K+4]; int w = -1;
  r = uriToStringA(buf, &u, sizeof buf, &w);
  assert(r == URI_SUCCESS);
  /* tail well-formed */
  if (u.pathHead) { UriPathSegmentA *p = u.pathHead; int c=0; while (p->next && c < K+1) { p = p->next; c++; } assert(p == u.pathTail); }
  uriFreeUriMembersA(&u);
#ifdef WITNESS
  assert(0);
#endif
  return 0; }
