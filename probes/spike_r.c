#include <uriparser/Uri.h>
#include <string.h>
#ifndef K1
#define K1 2
#endif
#ifndef K2
#define K2 3
#endif
#define L 2
extern void uk_sym_bytes(void *p, unsigned long n);
extern int uk_sym_int(void);
extern void uk_assume(int c);
extern void uk_done(int rc, long x);
extern void *uk_malloc(unsigned long n);
extern void uk_free(void *p);
static void *mm_malloc(UriMemoryManager *m, size_t n){ return uk_malloc(n); }
static void *mm_calloc(UriMemoryManager *m, size_t a, size_t b){ void *p = uk_malloc(a*b); memset(p, 0, a*b); return p; }
static void *mm_realloc(UriMemoryManager *m, void *p, size_t n){ return 0; }
static void *mm_reallocarray(UriMemoryManager *m, void *p, size_t a, size_t b){ return 0; }
static void mm_free(UriMemoryManager *m, void *p){ uk_free(p); }
static UriMemoryManager mm = { mm_malloc, mm_calloc, mm_realloc, mm_reallocarray, mm_free, 0 };
static char sym[(K1+K2)*L];
static char base[8 + K1*(L+1)], ref[1 + K2*(L+1)], out[64];
static int build(char *dst, int n, int k, const char *src, int lead){
  for (int s = 0; s < k; s++){
    int len = uk_sym_int(); uk_assume(len >= 0 && len <= L);
    if (s > 0 || lead) dst[n++] = '/';
    for (int i = 0; i < len; i++) dst[n++] = src[s*L+i];
  }
  return n;
}
int main(void){
  UriUriA B, R, T; const char *e = 0;
  uk_sym_bytes(sym, sizeof sym);
  int nb = 0; base[nb++]='s'; base[nb++]=':';
  int auth = uk_sym_int(); uk_assume(auth==0 || auth==1);
  if (auth){ base[nb++]='/'; base[nb++]='/'; base[nb++]='h'; }
  int blead = uk_sym_int(); uk_assume(blead==0 || blead==1); if (auth) uk_assume(blead==1);
  nb = build(base, nb, K1, sym, blead);
  int rlead = uk_sym_int(); uk_assume(rlead==0 || rlead==1);
  int nr = build(ref, 0, K2, sym + K1*L, rlead);
  if (uriParseSingleUriExMmA(&B, base, base+nb, &e, &mm)) return 0;
  if (uriParseSingleUriExMmA(&R, ref, ref+nr, &e, &mm)) { uriFreeUriMembersMmA(&B,&mm); return 0; }
  int rc = uriAddBaseUriExMmA(&T, &R, &B, URI_RESOLVE_STRICTLY, &mm);
  int w = -1;
  if (rc == 0) { rc = uriToStringA(out, &T, sizeof out, &w); uriFreeUriMembersMmA(&T,&mm); }
  uk_done(rc, w);
  uriFreeUriMembersMmA(&R,&mm); uriFreeUriMembersMmA(&B,&mm);
  return 0;
}
