#include <uriparser/Uri.h>
#include <stdio.h>
#include <stdlib.h>
static int live, nalloc, failat;
static void *m_malloc(UriMemoryManager*m,size_t n){ if(++nalloc==failat) return 0; live++; return malloc(n);} 
static void *m_calloc(UriMemoryManager*m,size_t a,size_t b){ if(++nalloc==failat) return 0; live++; return calloc(a,b);} 
static void *m_realloc(UriMemoryManager*m,void*p,size_t n){ return realloc(p,n);} 
static void *m_reallocarray(UriMemoryManager*m,void*p,size_t a,size_t b){ return realloc(p,a*b);} 
static void m_free(UriMemoryManager*m,void*p){ if(p){live--; free(p);} }
static UriMemoryManager mm={m_malloc,m_calloc,m_realloc,m_reallocarray,m_free,0};
int main(int argc,char**argv){ const char*s=argv[1]; unsigned mask=atoi(argv[2]);
 for(int k=1;k<40;k++){ UriUriA u; const char*e; live=0;nalloc=0;failat=0; if(uriParseSingleUriExMmA(&u,s,s+strlen(s),&e,&mm)){printf("parse fail\n");return 1;} int base=nalloc; failat=base+k; int r=uriNormalizeSyntaxExMmA(&u,mask,&mm); failat=0; uriFreeUriMembersMmA(&u,&mm); printf("k=%d rc=%d live_after_cleanup=%d\n",k,r,live); if(r==0)break;}
 return 0;}
