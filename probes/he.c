#include <uriparser/Uri.h>
#include <assert.h>
#ifndef N
#define N 4
#endif
char nondet_char(void); _Bool nondet_bool(void);
int main(void){
  static char in[N+1]; static char out[6*N+1]; static char back[6*N+1];
  for (int i=0;i<N;i++){ in[i]=nondet_char(); __CPROVER_assume(in[i]!=0);} in[N]=0;
  _Bool s2p = nondet_bool(), nb = nondet_bool();
  char *end = uriEscapeExA(in, in+N, out, s2p, nb);
  assert(end >= out && end <= out + (nb?6:3)*N);
  assert(*end == 0);
  for (int i=0;i<6*N+1;i++){ back[i]=out[i]; }
  const char *e2 = uriUnescapeInPlaceExA(back, s2p, URI_BR_DONT_TOUCH);
  if (!nb) { assert(e2 == back + N); for (int i=0;i<N;i++) assert(back[i]==in[i]); }
#ifdef WITNESS
  assert(0);
#endif
  return 0; }
