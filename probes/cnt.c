#include <uriparser/Uri.h>
#include <stdio.h>
#include <stdlib.h>
#include <string.h>
/* sizing only: count distinct parser outcomes (shapes) over a class-representative alphabet */
static const char A[] = "a1%:/?#[]@.v-!\x01";  /* 15 reps */
typedef struct { unsigned long h; } H;
static int cmp(const void*a,const void*b){unsigned long x=*(unsigned long*)a,y=*(unsigned long*)b;return x<y?-1:x>y;}
int main(int argc,char**argv){ int N=atoi(argv[1]); int na=strlen(A); char buf[16]; long total=1; for(int i=0;i<N;i++) total*=na;
 unsigned long *hs = malloc(sizeof(unsigned long)*total); long ok=0;
 for(long t=0;t<total;t++){ long x=t; for(int i=0;i<N;i++){buf[i]=A[x%na]; x/=na;}
  UriUriA u; const char*e=0; int r=uriParseSingleUriExA(&u,buf,buf+N,&e);
  unsigned long h=1469598103934665603UL;
  #define MIX(v) h=(h^(unsigned long)(v))*1099511628211UL
  MIX(r);
  if(r){ MIX(e-buf); } else { ok++;
   #define RNG(x) MIX((x).first? (((x).first>=buf && (x).first<=buf+N)? (x).first-buf : 100) : 200); MIX((x).afterLast? (((x).afterLast>=buf&&(x).afterLast<=buf+N)?(x).afterLast-buf:100):200)
   RNG(u.scheme); RNG(u.userInfo); RNG(u.hostText); RNG(u.portText); RNG(u.query); RNG(u.fragment); MIX(u.hostData.ip4!=0); MIX(u.hostData.ip6!=0); RNG(u.hostData.ipFuture); MIX(u.absolutePath);
   for(UriPathSegmentA*s=u.pathHead;s;s=s->next){ RNG(s->text); }
   uriFreeUriMembersA(&u);} 
  hs[t]=h; }
 qsort(hs,total,sizeof(unsigned long),cmp); long d=1; for(long t=1;t<total;t++) if(hs[t]!=hs[t-1]) d++;
 printf("N=%d strings=%ld accepted=%ld distinct_outcomes=%ld\n",N,total,ok,d); return 0; }
