#!/usr/bin/env python3
# THROWAWAY PROTOTYPE: LLVM-14 (typed pointers) IR -> C for CBMC.  Feasibility probe only.
import re, sys, subprocess

class Ty:
    pass
class IntT(Ty):
    def __init__(s, bits): s.bits = bits
    def key(s): return 'i%d' % s.bits
class VoidT(Ty):
    def key(s): return 'void'
class PtrT(Ty):
    def __init__(s, to): s.to = to
    def key(s): return s.to.key() + '*'
class ArrT(Ty):
    def __init__(s, n, el): s.n = n; s.el = el
    def key(s): return '[%d x %s]' % (s.n, s.el.key())
class StructT(Ty):
    def __init__(s, name): s.name = name
    def key(s): return '%' + s.name
class FnT(Ty):
    def __init__(s, ret, args, va=False): s.ret = ret; s.args = args; s.va = va
    def key(s): return s.ret.key() + ' (' + ', '.join(a.key() for a in s.args) + ')'

TOK = re.compile(r'\s*(%"[^"]+"|%[\w.$-]+|@[\w.$-]+|\[|\]|\(|\)|\{|\}|\*|,|x\b|\.\.\.|[A-Za-z_][\w.]*|-?\d+|=|!\w*|"[^"]*")')
def toks(s):
    out = []; i = 0
    while i < len(s):
        m = TOK.match(s, i)
        if not m:
            if s[i:].strip() == '': break
            raise Exception('tok fail: ' + s[i:i+40])
        out.append(m.group(1)); i = m.end()
    return out

class P:
    def __init__(s, t): s.t = t; s.i = 0
    def peek(s): return s.t[s.i] if s.i < len(s.t) else None
    def next(s): x = s.t[s.i]; s.i += 1; return x
    def eat(s, x):
        if s.peek() == x: s.i += 1; return True
        return False
    def expect(s, x):
        if s.next() != x: raise Exception('expected %s at %s' % (x, s.t[max(0,s.i-5):s.i+3]))
    def type(s):
        t = s.next()
        if re.fullmatch(r'i\d+', t): ty = IntT(int(t[1:]))
        elif t == 'void': ty = VoidT()
        elif t == 'ptr': raise Exception('opaque ptr')
        elif t.startswith('%'): ty = StructT(t[1:].replace('struct.', '').replace('union.', ''))
        elif t == '[':
            n = int(s.next()); s.expect('x'); el = s.type(); s.expect(']'); ty = ArrT(n, el)
        else: raise Exception('type? ' + t)
        while True:
            if s.eat('*'): ty = PtrT(ty)
            elif s.peek() == '(' :
                s.next(); args = []; va = False
                while not s.eat(')'):
                    if s.eat('...'): va = True
                    else: args.append(s.type())
                    s.eat(',')
                ty = FnT(ty, args, va)
            else: break
        return ty

ATTRS = {'noundef','nonnull','nocapture','readonly','readnone','writeonly','noalias','signext','zeroext','immarg','inbounds','nuw','nsw','exact','tail','musttail','notail','fastcc','dso_local','internal','local_unnamed_addr','unnamed_addr','returned','nofree','nosync','volatile'}

class Tr:
    def __init__(s, fields):
        s.fields = fields; s.typedefs = {}; s.tdlist = []
    def cty(s, ty):
        if isinstance(ty, IntT):
            return {1:'unsigned char', 8:'char', 16:'unsigned short', 32:'int', 64:'unsigned long'}[ty.bits]
        if isinstance(ty, VoidT): return 'void'
        if isinstance(ty, StructT): return 'struct ' + ty.name
        k = ty.key()
        if k in s.typedefs: return s.typedefs[k]
        name = 'T%d' % len(s.typedefs)
        s.typedefs[k] = name
        if isinstance(ty, PtrT):
            if isinstance(ty.to, FnT):
                f = ty.to
                s.tdlist.append('typedef %s (*%s)(%s);' % (s.cty(f.ret), name, ', '.join(s.cty(a) for a in f.args) or 'void'))
            else:
                s.tdlist.append('typedef %s *%s;' % (s.cty(ty.to), name))
        elif isinstance(ty, ArrT):
            s.tdlist.append('typedef %s %s[%d];' % (s.cty(ty.el), name, ty.n))
        else: raise Exception('cty ' + k)
        return name

def main():
    llfile, src_args = sys.argv[1], sys.argv[2:]
    # record layouts -> field names
    text0 = open(llfile).read()
    snames = re.findall(r'^%struct\.(\w+) = type', text0, re.M)
    srcs = [a for a in src_args if a.endswith('.c')]
    probe = '#include "%s"\n' % srcs[0] + ''.join('unsigned long probe_%s = sizeof(struct %s);\n' % (n, n) for n in snames)
    open('/tmp/scratch/probe_layout.c', 'w').write(probe)
    out = subprocess.run(['clang-14', '-fsyntax-only', '-Xclang', '-fdump-record-layouts'] + [a for a in src_args if not a.endswith('.c')] + ['/tmp/scratch/probe_layout.c'], capture_output=True, text=True).stdout
    fields = {}
    for blk in out.split('*** Dumping AST Record Layout'):
        lines = [l for l in blk.split('\n') if '|' in l]
        if not lines: continue
        m = re.match(r'\s*\d+ \| struct (\w+)$', lines[0])
        if not m: continue
        fl = []
        for l in lines[1:]:
            m2 = re.match(r'\s*\d+ \|   (\S.*)$', l)
            if m2 and not l.split('|')[1].startswith('    '):
                fl.append(m2.group(1).split()[-1])
        fields[m.group(1)] = fl
    tr = Tr(fields)
    text = open(llfile).read()
    structs = {}
    for m in re.finditer(r'^%(?:struct|union)\.(\w+) = type \{(.*)\}$', text, re.M):
        p = P(toks(m.group(2))); el = []
        while p.peek() is not None:
            el.append(p.type()); p.eat(',')
        structs[m.group(1)] = el
    tr.structs = structs
    body = []
    protos = []
    # globals
    for m in re.finditer(r'^@([\w.]+) = external (?:local_unnamed_addr )?(global|constant) (.*), align \d+$', text, re.M):
        ty = P(toks(m.group(3))).type()
        protos.append('extern %s %s;' % (tr.cty(ty), m.group(1)))
    for m in re.finditer(r'^declare (.*)$', text, re.M):
        line = m.group(1)
        if '@llvm.' in line: continue
        protos.append(proto(tr, line) + ';')
    funcs = re.findall(r'^define (.*?)\{\n(.*?)^\}', text, re.M | re.S)
    for hdr, _ in funcs:
        protos.append(proto(tr, hdr) + ';')
    for hdr, b in funcs:
        body.append(func(tr, hdr, b))
    print('void *memset(void*,int,unsigned long); void *memcpy(void*,const void*,unsigned long);')
    for n in structs: print('struct %s;' % n)
    sd = []
    for n, el in structs.items():
        sd.append('struct %s { %s };' % (n, ' '.join('%s %s;' % (tr.cty(t), tr.fields[n][i]) for i, t in enumerate(el))))
    # typedefs may reference structs by pointer only, except arrays of structs (none); emit typedefs then struct bodies in dependency order
    print('\n'.join(tr.tdlist))
    done = set()
    def emit(n):
        if n in done: return
        done.add(n)
        for t in structs[n]:
            if isinstance(t, StructT): emit(t.name)
        print('struct %s { %s };' % (n, ' '.join('%s %s;' % (tr.cty(t), tr.fields[n][i]) for i, t in enumerate(structs[n]))))
    for n in structs: emit(n)
    # protos of functions already declared in headers may conflict in qualifiers; only emit for statics / undeclared
    for p_ in protos:
        print(p_)
    print('\n'.join(body))

def strip_attrs(ts):
    out = []; i = 0
    while i < len(ts):
        t = ts[i]
        if t in ATTRS: i += 1; continue
        if t in ('align', 'dereferenceable', 'dereferenceable_or_null') :
            i += 1
            if i < len(ts) and ts[i] == '(':
                while ts[i] != ')': i += 1
                i += 1
            else: i += 1
            continue
        out.append(t); i += 1
    return out

def proto(tr, line, names=None):
    line = re.sub(r'#\d+', '', line)
    line = re.sub(r'\).*$', ')', line) if False else line
    ts = strip_attrs(toks(line.split(' !')[0]))
    p = P(ts)
    static = 'internal' in line.split('@')[0]
    ret = p.type()
    name = p.next()[1:]
    p.expect('(')
    args = []
    while not p.eat(')'):
        if p.eat('...'): args.append(('...', None)); p.eat(','); continue
        ty = p.type()
        nm = None
        if p.peek() and p.peek().startswith('%'): nm = p.next()
        args.append((ty, nm)); p.eat(',')
    if names is not None: names.extend(args)
    a = ', '.join((tr.cty(t) + (' ' + v(n) if n else '')) if t != '...' else '...' for t, n in args) or 'void'
    return '%s%s %s(%s)' % ('static ' if static else '', tr.cty(ret), name, a)

def v(n):
    return 'v' + re.sub(r'\W', '_', n[1:])

def func(tr, hdr, b):
    args = []
    ph = proto(tr, hdr, args)
    vals = {}   # name -> Ty
    for t, n in args: vals[n] = t
    blocks = []  # (label, [lines])
    cur = ('entry0', [])
    blocks.append(cur)
    for line in b.split('\n'):
        line = line.split(', !')[0].rstrip()
        line = re.sub(r' #\d+$', '', line)
        if not line.strip() or line.strip().startswith(';'): continue
        m = re.match(r'^([\w.]+):', line)
        if m:
            cur = (m.group(1), []); blocks.append(cur); continue
        cur[1].append(line.strip())
    # first block label: LLVM numbers it implicitly = number of args (unnamed)
    first_label = str(len(args))
    blocks[0] = (first_label, blocks[0][1])
    # join multi-line switch
    for lbl, ls in blocks:
        j = []; acc = None
        for l in ls:
            if acc is not None:
                acc += ' ' + l
                if l.startswith(']'): j.append(acc); acc = None
                continue
            if l.startswith('switch') and not l.rstrip().endswith(']'): acc = l; continue
            j.append(l)
        ls[:] = j
    code = {}  # label -> list of C statements
    decls = []
    phis = {}  # label -> [(dest, ty, [(val, pred)])]
    ptrsrc = {}
    def operand(p, ty):
        t = p.next()
        if t.startswith('%'): return v(t)
        if t.startswith('@'): return '(&%s)' % t[1:] if not isinstance(ty, PtrT) or True else t[1:]
        if t == 'null': return '0'
        if t in ('undef', 'poison'): return '0'
        if t == 'true': return '1'
        if t == 'false': return '0'
        if t == 'zeroinitializer': return '0'
        if re.fullmatch(r'-?\d+', t):
            n = int(t)
            if isinstance(ty, IntT):
                n &= (1 << ty.bits) - 1
                return '((%s)%dUL)' % (tr.cty(ty), n)
            return str(n)
        if t == 'getelementptr':
            return gep_expr(p)[0]
        if t == 'bitcast':
            p.expect('('); sty = p.type(); val = operand(p, sty); p.expect('to'); dty = p.type(); p.expect(')')
            return '((%s)%s)' % (tr.cty(dty), val)
        raise Exception('operand? %s in %s' % (t, p.t))
    def gep_expr(p):
        paren = p.eat('(')
        base_ty = p.type(); p.expect(',')
        pty = p.type(); base = operand(p, pty)
        idx = []
        while p.eat(','):
            ity = p.type(); idx.append((ity, operand(p, ity)))
        if paren: p.expect(')')
        # first index
        ity, i0 = idx[0]
        e = '(%s)[(long)(%s)%s]' % (base, 'int' if ity.bits == 32 else 'long', i0)
        cur_ty = base_ty
        for ity, ix in idx[1:]:
            if isinstance(cur_ty, StructT):
                k = int(re.search(r'(\d+)UL', ix).group(1))
                e += '.' + tr.fields[cur_ty.name][k]
                cur_ty = tr.structs[cur_ty.name][k]
            elif isinstance(cur_ty, ArrT):
                e += '[(long)(%s)%s]' % ('int' if ity.bits == 32 else 'long', ix)
                cur_ty = cur_ty.el
            else: raise Exception('gep into ' + cur_ty.key())
        return '(&%s)' % e, PtrT(cur_ty)
    def sgn(ty, e):
        return '((%s)%s)' % ({8:'signed char',16:'short',32:'int',64:'long',1:'signed char'}[ty.bits], e)
    for lbl, ls in blocks:
        out = []; code[lbl] = out
        for l in ls:
            ts = strip_attrs(toks(l))
            p = P(ts)
            dest = None
            if len(ts) > 1 and ts[1] == '=':
                dest = p.next(); p.next()
            op = p.next()
            if op == 'call':
                pass
            if op == 'phi':
                ty = p.type(); inc = []
                while p.eat('['):
                    val = operand(p, ty); p.expect(','); pred = p.next()[1:]; p.expect(']'); p.eat(',')
                    inc.append((val, pred))
                vals[dest] = ty; phis.setdefault(lbl, []).append((dest, ty, inc))
                continue
            if op == 'alloca':
                ty = p.type(); vals[dest] = PtrT(ty)
                decls.append('%s %s_mem;' % (tr.cty(ty), v(dest)))
                out.append('%s = &%s_mem;' % (v(dest), v(dest)))
            elif op == 'load':
                ty = p.type(); p.expect(','); pty = p.type(); ptr = operand(p, pty)
                vals[dest] = ty; out.append('%s = *%s;' % (v(dest), ptr))
            elif op == 'store':
                ty = p.type(); val = operand(p, ty); p.expect(','); pty = p.type(); ptr = operand(p, pty)
                out.append('*%s = %s;' % (ptr, val))
            elif op == 'getelementptr':
                e, rty = gep_expr(p); vals[dest] = rty; out.append('%s = %s;' % (v(dest), e))
            elif op in ('bitcast', 'zext', 'sext', 'trunc', 'ptrtoint', 'inttoptr'):
                sty = p.type(); val = operand(p, sty); p.expect('to'); dty = p.type(); vals[dest] = dty
                if op == 'sext': val = sgn(sty, val); out.append('%s = (%s)(%s)%s;' % (v(dest), tr.cty(dty), {16:'short',32:'int',64:'long'}[dty.bits], val))
                elif op == 'zext': out.append('%s = (%s)(%s)%s;' % (v(dest), tr.cty(dty), {1:'unsigned char',8:'unsigned char',16:'unsigned short',32:'unsigned int'}[sty.bits], val))
                else:
                    if op == 'ptrtoint': ptrsrc[dest] = val
                    out.append('%s = (%s)%s;' % (v(dest), tr.cty(dty), val))
            elif op == 'freeze':
                ty = p.type(); val = operand(p, ty); vals[dest] = ty; out.append('%s = %s;' % (v(dest), val))
            elif op == 'icmp':
                pred = p.next(); ty = p.type(); a = operand(p, ty); p.expect(','); bb = operand(p, ty)
                vals[dest] = IntT(1)
                cop = {'eq':'==','ne':'!=','ult':'<','ule':'<=','ugt':'>','uge':'>=','slt':'<','sle':'<=','sgt':'>','sge':'>='}[pred]
                if isinstance(ty, IntT):
                    if pred[0] == 's': a = sgn(ty, a); bb = sgn(ty, bb)
                    else:
                        ut = {1:'unsigned char',8:'unsigned char',16:'unsigned short',32:'unsigned int',64:'unsigned long'}[ty.bits]
                        a = '((%s)%s)' % (ut, a); bb = '((%s)%s)' % (ut, bb)
                out.append('%s = (%s %s %s);' % (v(dest), a, cop, bb))
            elif op in ('add','sub','mul','and','or','xor','shl','lshr','ashr','sdiv','udiv','srem','urem'):
                ty = p.type(); a_t = p.peek(); a = operand(p, ty); p.expect(','); b_t = p.peek(); bb = operand(p, ty)
                vals[dest] = ty
                if op == 'sub' and a_t in ptrsrc and b_t in ptrsrc:
                    out.append('%s = (%s)((char*)%s - (char*)%s);' % (v(dest), tr.cty(ty), ptrsrc[a_t], ptrsrc[b_t]))
                else:
                    cop = {'add':'+','sub':'-','mul':'*','and':'&','or':'|','xor':'^','shl':'<<','lshr':'>>','udiv':'/','urem':'%'}.get(op)
                    ut = {1:'unsigned char',8:'unsigned char',16:'unsigned short',32:'unsigned int',64:'unsigned long'}[ty.bits]
                    if cop: out.append('%s = (%s)((%s)%s %s (%s)%s);' % (v(dest), tr.cty(ty), ut, a, cop, ut, bb))
                    else:
                        cop = {'ashr':'>>','sdiv':'/','srem':'%'}[op]
                        out.append('%s = (%s)(%s %s %s);' % (v(dest), tr.cty(ty), sgn(ty, a), cop, sgn(ty, bb)))
            elif op == 'select':
                cty_ = p.type(); c = operand(p, cty_); p.expect(','); ty = p.type(); a = operand(p, ty); p.expect(','); ty2 = p.type(); bb = operand(p, ty2)
                vals[dest] = ty; out.append('%s = %s ? %s : %s;' % (v(dest), c, a, bb))
            elif op == 'call':
                rty = p.type()
                # rty may be a full fn type for varargs; ignore
                callee = p.next()
                p.expect('(')
                a = []
                while not p.eat(')'):
                    ty = p.type(); a.append((ty, operand(p, ty))); p.eat(',')
                if callee.startswith('@llvm.lifetime'): continue
                if callee.startswith('@llvm.memset'): out.append('memset(%s, (unsigned char)%s, %s);' % (a[0][1], a[1][1], a[2][1])); continue
                if callee.startswith('@llvm.memcpy'): out.append('memcpy(%s, %s, %s);' % (a[0][1], a[1][1], a[2][1])); continue
                if callee.startswith('@llvm.'): raise Exception('intrinsic ' + callee)
                fn = callee[1:] if callee.startswith('@') else '(*%s)' % v(callee)
                call = '%s(%s)' % (fn, ', '.join(x[1] for x in a))
                if dest and not isinstance(rty, VoidT): vals[dest] = rty; out.append('%s = %s;' % (v(dest), call))
                else: out.append(call + ';')
            elif op == 'br':
                if p.eat('label'):
                    out.append(('br', [p.next()[1:]], None))
                else:
                    ty = p.type(); c = operand(p, ty); p.expect(','); p.expect('label'); t1 = p.next()[1:]; p.expect(','); p.expect('label'); t2 = p.next()[1:]
                    out.append(('br', [t1, t2], c))
            elif op == 'switch':
                ty = p.type(); val = operand(p, ty); p.expect(','); p.expect('label'); dflt = p.next()[1:]; p.expect('[')
                cases = []
                while not p.eat(']'):
                    t2 = p.type(); cv = operand(p, t2); p.expect(','); p.expect('label'); cases.append((cv, p.next()[1:]))
                out.append(('switch', val, dflt, cases))
            elif op == 'ret':
                ty = p.type()
                if isinstance(ty, VoidT): out.append('return;')
                else: out.append('return %s;' % operand(p, ty))
            elif op == 'unreachable':
                out.append('__CPROVER_assert(0, "llvm unreachable"); __CPROVER_assume(0);')
            else:
                raise Exception('op? ' + l)
    # emit
    res = [ph + ' {']
    argnames = set(n for t, n in args)
    for n, ty in vals.items():
        if n in argnames: continue
        res.append('  %s %s;' % (tr.cty(ty), v(n)))
    for lbl, pl in phis.items():
        for dest, ty, inc in pl: res.append('  %s %s_phi;' % (tr.cty(ty), v(dest)))
    res += ['  ' + d for d in decls]
    def edge_copies(pred, succs):
        o = []
        for s_ in dict.fromkeys(succs):
            for dest, ty, inc in phis.get(s_, []):
                for val, pr in inc:
                    if pr == pred: o.append('%s_phi = %s;' % (v(dest), val)); break
        return o
    # --- reorder blocks: loops contiguous, exit tails after the loop (so symex merges tails once)
    succ = {}
    for lbl, _ in blocks:
        ss = []
        for st in code[lbl]:
            if isinstance(st, tuple):
                if st[0] == 'br': ss += st[1]
                else: ss += [st[2]] + [c[1] for c in st[3]]
        succ[lbl] = list(dict.fromkeys(ss))
    import sys as _s; _s.setrecursionlimit(100000)
    def sccs(nodes, succf):
        idx = {}; low = {}; st = []; on = set(); out = []; c = [0]
        def sc(v_):
            idx[v_] = low[v_] = c[0]; c[0] += 1; st.append(v_); on.add(v_)
            for w in succf(v_):
                if w not in nodes: continue
                if w not in idx: sc(w); low[v_] = min(low[v_], low[w])
                elif w in on: low[v_] = min(low[v_], idx[w])
            if low[v_] == idx[v_]:
                comp = []
                while True:
                    w = st.pop(); on.discard(w); comp.append(w)
                    if w == v_: break
                out.append(comp)
        for n in nodes:
            if n not in idx: sc(n)
        return out[::-1]   # reverse postorder of SCC DAG = topological
    def order(nodes, entry, banned):
        nodeset = set(nodes)
        sf = lambda x: [y for y in succ[x] if (x, y) not in banned]
        comps = sccs([entry] + [n for n in nodes if n != entry], sf)
        res_ = []
        for comp in comps:
            if len(comp) == 1 and comp[0] not in sf(comp[0]): res_.append(comp[0]); continue
            cs = set(comp)
            heads = [n for n in comp if n == entry or any((p_ not in cs) and n in sf(p_) for p_ in nodeset)]
            h = heads[0] if heads else comp[0]
            nb = set(banned) | set((x, h) for x in comp)
            rest = [n for n in comp if n != h]
            res_.append(h)
            if rest:
                # entry of rest: first successor of h inside rest
                e2 = [y for y in succ[h] if y in rest]
                sub = order(rest, e2[0] if e2 else rest[0], nb)
                res_ += sub
        return res_
    labels = [l for l, _ in blocks]
    ordered = order(labels, labels[0], set())
    assert sorted(ordered) == sorted(labels), (len(ordered), len(labels))
    for lbl in ordered:
        res.append(' L%s: ;' % re.sub(r'\W', '_', lbl))
        for dest, ty, inc in phis.get(lbl, []): res.append('  %s = %s_phi;' % (v(dest), v(dest)))
        for st in code[lbl]:
            if isinstance(st, tuple):
                if st[0] == 'br':
                    res += ['  ' + x for x in edge_copies(lbl, st[1])]
                    if st[2] is None: res.append('  goto L%s;' % re.sub(r'\W','_',st[1][0]))
                    else: res.append('  if (%s) goto L%s; else goto L%s;' % (st[2], re.sub(r'\W','_',st[1][0]), re.sub(r'\W','_',st[1][1])))
                else:
                    _, val, dflt, cases = st
                    res += ['  ' + x for x in edge_copies(lbl, [dflt] + [c[1] for c in cases])]
                    groups = {}
                    for cv, tgt in cases: groups.setdefault(tgt, []).append(int(re.search(r'(\d+)UL', cv).group(1)))
                    cast = re.match(r'\(\((.*?)\)', cases[0][0]).group(1) if cases else 'int'
                    ut = {'char':'unsigned char','int':'unsigned int','unsigned long':'unsigned long','unsigned short':'unsigned short'}[cast]
                    for tgt, vs in groups.items():
                        vs = sorted(vs); rs = []
                        i = 0
                        while i < len(vs):
                            j = i
                            while j + 1 < len(vs) and vs[j+1] == vs[j] + 1: j += 1
                            if i == j: rs.append('(%s)%s == %dU' % (ut, val, vs[i]))
                            else: rs.append('((%s)%s >= %dU && (%s)%s <= %dU)' % (ut, val, vs[i], ut, val, vs[j]))
                            i = j + 1
                        res.append('  if (%s) goto L%s;' % (' || '.join(rs), re.sub(r'\W','_',tgt)))
                    res.append('  goto L%s;' % re.sub(r'\W','_',dflt))
            else: res.append('  ' + st)
    res.append('}')
    return '\n'.join(res)

if __name__ == "__main__": main()
