#include <uriparser/Uri.h>
#include <assert.h>
#include <string.h>
#ifndef L
#define L 2
#endif
char nondet_char(void); _Bool nondet_bool(void); int nondet_int(void);
int main(void){
  static char k1[L+1], v1[L+1], k2[L+1], v2[L+1];
  char *ss[4]={k1,v1,k2,v2};
  for (int s=0;s<4;s++){ int len=nondet_int(); __CPROVER_assume(len>=0&&len<=L); for(int i=0;i<L;i++){ ss[s][i]=nondet_char(); if (i<len) __CPROVER_assume(ss[s][i]!=0); else ss[s][i]=0;} ss[s][L]=0; }
  UriQueryListA q2; q2.key=k2; q2.value = nondet_bool()? (const char*)v2 : (const char*)0; q2.next=0; UriQueryListA q1; q1.key=k1; q1.value= nondet_bool()? (const char*)v1 : (const char*)0; q1.next=&q2;
  int req=-1; int r=uriComposeQueryCharsRequiredA(&q1,&req); assert(r==URI_SUCCESS);
  static char dest[6*4*L+8]; int cap=nondet_int(); __CPROVER_assume(cap>=0 && cap<=(int)sizeof dest); int w=-1;
  r=uriComposeQueryA(dest,&q1,cap,&w);
  if (cap>=req+1) assert(r==URI_SUCCESS);
  if (r==URI_SUCCESS){ assert(w>=1 && w<=cap); assert(dest[w-1]==0); }
  return 0; }
