#include <uriparser/Uri.h>
#include <stdio.h>
#include <string.h>
static void show(const char*tag,UriUriA*u){char buf[512];int w;int r=uriToStringA(buf,u,512,&w);printf("%s: r=%d '%s' abs=%d host=%d\n",tag,r,buf,u->absolutePath,u->hostText.first!=NULL);}
static void resolve(const char*b,const char*r){UriUriA B,R,T;const char*e;
 if(uriParseSingleUriA(&B,b,&e)){printf("base parse fail\n");return;}
 if(uriParseSingleUriA(&R,r,&e)){printf("ref parse fail\n");return;}
 int rc=uriAddBaseUriA(&T,&R,&B);printf("resolve(%s , %s) rc=%d ",b,r,rc);show("T",&T);
 uriFreeUriMembersA(&T);uriFreeUriMembersA(&R);uriFreeUriMembersA(&B);}
static void norm(const char*s){UriUriA U;const char*e;if(uriParseSingleUriA(&U,s,&e)){printf("parse fail\n");return;}
 unsigned m=uriNormalizeSyntaxMaskRequiredA(&U);int rc=uriNormalizeSyntaxA(&U);printf("norm(%s) mask=%u rc=%d ",s,m,rc);show("N",&U);uriFreeUriMembersA(&U);}
static void eq(const char*a,const char*b){UriUriA A,B;const char*e;uriParseSingleUriA(&A,a,&e);uriParseSingleUriA(&B,b,&e);printf("eq(%s,%s)=%d\n",a,b,uriEqualsUriA(&A,&B));uriFreeUriMembersA(&A);uriFreeUriMembersA(&B);}
static void shorten(const char*s,const char*b,int dr){UriUriA S,B,T,Z;const char*e;uriParseSingleUriA(&S,s,&e);uriParseSingleUriA(&B,b,&e);
 int rc=uriRemoveBaseUriA(&T,&S,&B,dr);printf("shorten(%s , %s, %d) rc=%d ",s,b,dr,rc);show("T",&T);
 if(!rc){char buf[512];int w;uriToStringA(buf,&T,512,&w);UriUriA T2;if(uriParseSingleUriA(&T2,buf,&e)){printf("  reparse FAIL\n");}else{rc=uriAddBaseUriA(&Z,&T2,&B);printf("   back rc=%d ",rc);show("Z",&Z);uriFreeUriMembersA(&Z);uriFreeUriMembersA(&T2);}}
 uriFreeUriMembersA(&T);uriFreeUriMembersA(&S);uriFreeUriMembersA(&B);}
int main(){
 resolve("s:b","/.//x"); resolve("s:b","t:/.//x"); resolve("s://h/b","/.//x"); resolve("s:b",".//x"); resolve("s:/b",".//x"); resolve("s:/a/b","..//x");
 resolve("s:b","./x:y"); resolve("s:b","a/../x:y");resolve("s:","x");resolve("s://h","x");resolve("s:a/b","../../x");resolve("s:a","../x");
 norm("a/../b:c"); norm("./b:c"); norm("x/..//y"); norm("s:x/..//y"); norm("s:/.//y"); norm("/.//y"); norm("//h/.//y"); norm("a/.."); norm("a/../"); norm("../a/.."); norm("/.."); norm("/../a"); norm("s:/.."); norm("s:.."); norm("s:../a");norm(".");norm("./");norm("./.");norm("a/./b:c");norm("%2e/x");norm("HTTP://EX%41mple.com/%7euser/%2Fa/%zz");
 eq("s:/a","s:a"); eq("/a","a"); eq("s:","s:/"); eq("//h","//h/");eq("//h/a","//h/a");
 shorten("http://u@h/a","http://h/b",0); shorten("http://h:80/a","http://h/b",0); shorten("http://h/a","http://h/b",0);shorten("http://h/a/b","http://h/a/b",0);shorten("http://h/a/","http://h/a/b",0);shorten("http://h/a","http://h/a/b/c",0);shorten("s:a","s:b",0);shorten("s:/a","s:b",0);shorten("s:a","s:/b",0);shorten("s://h","s://h/a",0);shorten("s://h/","s://h",0);shorten("s://h/a?q","s://h/a",0);shorten("s://h/a","s://h/a?q",0);shorten("s://h//a","s://h/b",0);shorten("s://h//a","s://h/b",1);shorten("s:a:b","s:c",0);shorten("s://h/a","s://h/",1);shorten("s:a","s:b",1);
 return 0;}
