#include <uriparser/Uri.h>
#include <assert.h>
#include <string.h>
#ifndef N
#define N 4
#endif
char nondet_char(void);
int main(void){
  static char fn[N+1]; static char us[7+3*N+1]; static char back[7+3*N+1];
  for (int i=0;i<N;i++){ fn[i]=nondet_char(); __CPROVER_assume(fn[i]!=0);} fn[N]=0;
  int r = uriUnixFilenameToUriStringA(fn, us); assert(r==URI_SUCCESS);
  unsigned long l = strlen(us); assert(l <= 7+3*N);
  r = uriUriStringToUnixFilenameA(us, back); assert(r==URI_SUCCESS);
  for (int i=0;i<=N;i++) assert(back[i]==fn[i]);
  return 0; }
