char nondet_char(void);
#ifndef N
#define N 6
#endif
static const char *pch(const char *first, const char *afterLast){ if (first>=afterLast) return 0; switch(*first){case '%': if (first+2>=afterLast) return 0; if (first[1]=='1' && first[2]=='2') return first+3; return 0; case 'a': case 'b': case 'c': case 'd': return first+1; default: return 0;} }
static const char *f(const char *first, const char *afterLast){ for(;;){ if (first >= afterLast) return afterLast; switch(*first){case '%': case 'a': case 'b': case 'c': case 'd': {const char *a = pch(first, afterLast); if (!a) return 0; first = a; break;} case '/': case '?': first = first+1; break; default: return first;} } }
static char buf[N];
int main(){
 for(int i=0;i<N;i++) buf[i]=nondet_char();
 const char *r = f(buf, buf+N); __CPROVER_assert(r==0 || (r>=buf && r<=buf+N), "range"); 
#ifdef WIT
 __CPROVER_assert(r!=buf+N, "wit");
#endif
 return 0; }
