#include <uriparser/Uri.h>
#include <stdlib.h>
#include <string.h>
#include <assert.h>
#ifndef N
#define N 3
#endif
char nondet_char(void);
#define POOLSZ (N+3)
static union { UriPathSegmentA seg; UriIp4 ip4; UriIp6 ip6; } pool[POOLSZ];
static int pool_used;
static int n_free;
static void *mm_malloc(UriMemoryManager *m, size_t n){ assert(n <= sizeof(pool[0])); assert(pool_used < POOLSZ); return &pool[pool_used++]; }
static void *mm_calloc(UriMemoryManager *m, size_t a, size_t b){ void *p = mm_malloc(m, a*b); memset(p, 0, a*b); return p; }
static void *mm_realloc(UriMemoryManager *m, void *p, size_t n){ assert(0); return 0; }
static void *mm_reallocarray(UriMemoryManager *m, void *p, size_t a, size_t b){ assert(0); return 0; }
static void mm_free(UriMemoryManager *m, void *p){ n_free++; }
static UriMemoryManager mm = { mm_malloc, mm_calloc, mm_realloc, mm_reallocarray, mm_free, 0 };
int main(void) {
  static char sbuf[N]; char *buf = sbuf;
  __CPROVER_assume(buf != 0);
  for (int i = 0; i < N; i++) buf[i] = nondet_char();
  UriUriA uri; const char *errorPos = 0;
  int r = uriParseSingleUriExMmA(&uri, buf, buf + N, &errorPos, &mm);
  assert(r == URI_SUCCESS || r == URI_ERROR_SYNTAX);
  if (r == URI_ERROR_SYNTAX) { assert(errorPos >= buf && errorPos <= buf + N); }
#ifdef WITNESS
  assert(r != URI_SUCCESS);
#endif
  return 0;
}
