#!/usr/bin/env python3-vt
# THROWAWAY SPIKE: path-wise symbolic interpreter for LLVM-14 typed-pointer IR (feasibility/cost probe only)
import re, sys, time, z3
sys.setrecursionlimit(100000)
from ll2c import toks, P, IntT, VoidT, PtrT, ArrT, StructT, FnT, strip_attrs

class Mod: pass
M = Mod(); M.structs = {}; M.funcs = {}; M.globals = {}

def sizeof(t):
    if isinstance(t, IntT): return max(1, t.bits // 8)
    if isinstance(t, PtrT): return 8
    if isinstance(t, ArrT): return t.n * sizeof(t.el)
    if isinstance(t, StructT): return layout(t.name)[0]
    raise Exception('sizeof ' + t.key())
def alignof(t):
    if isinstance(t, IntT): return max(1, t.bits // 8)
    if isinstance(t, PtrT): return 8
    if isinstance(t, ArrT): return alignof(t.el)
    if isinstance(t, StructT): return layout(t.name)[2]
_lay = {}
def layout(name):
    if name in _lay: return _lay[name]
    off = 0; offs = []; al = 1
    for t in M.structs[name]:
        a = alignof(t); al = max(al, a); off = (off + a - 1) // a * a; offs.append(off); off += sizeof(t)
    off = (off + al - 1) // al * al
    _lay[name] = (off, offs, al); return _lay[name]

NULL = ('P', None, 0)
def parse_operand(p, ty):
    t = p.next()
    if t.startswith('%'): return ('r', t)
    if t.startswith('@'): return ('g', t[1:])
    if t == 'null': return ('k', NULL)
    if t in ('undef', 'poison', 'zeroinitializer'): return ('k', NULL if isinstance(ty, PtrT) else 0)
    if t == 'true': return ('k', 1)
    if t == 'false': return ('k', 0)
    if re.fullmatch(r'-?\d+', t): return ('k', int(t) & ((1 << ty.bits) - 1))
    if t == 'getelementptr':
        return parse_gep(p)
    if t == 'bitcast':
        p.expect('('); sty = p.type(); v = parse_operand(p, sty); p.expect('to'); p.type(); p.expect(')'); return v
    if t == 'ptrtoint':
        p.expect('('); sty = p.type(); v = parse_operand(p, sty); p.expect('to'); p.type(); p.expect(')'); return ('p2i', v)
    raise Exception('operand ' + t)
def parse_gep(p):
    paren = p.eat('(')
    bt = p.type(); p.expect(','); pty = p.type(); base = parse_operand(p, pty); idx = []
    while p.eat(','):
        it = p.type(); idx.append((it, parse_operand(p, it)))
    if paren: p.expect(')')
    # precompute: list of (kind, scale or const)
    steps = []; cur = bt
    it, i0 = idx[0]; steps.append((sizeof(bt), i0, it.bits))
    const = 0
    for it, ix in idx[1:]:
        if isinstance(cur, StructT):
            k = ix[1]; const += layout(cur.name)[1][k]; cur = M.structs[cur.name][k]
        else:
            cur = cur.el; steps.append((sizeof(cur), ix, it.bits))
    return ('gep', base, steps, const)

def load_module(path):
    text = open(path).read()
    for m in re.finditer(r'^%(?:struct|union)\.(\w+) = type \{(.*)\}$', text, re.M):
        p = P(toks(m.group(2))); el = []
        while p.peek() is not None: el.append(p.type()); p.eat(',')
        M.structs[m.group(1)] = el
    M.gtext = {}
    for m in re.finditer(r'^@([\w.]+) = (.*)$', text, re.M):
        M.gtext[m.group(1)] = m.group(2)
    for hdr, b in re.findall(r'^define (.*?)\{\n(.*?)^\}', text, re.M | re.S):
        ts = strip_attrs(toks(re.sub(r'#\d+', '', hdr).split(' !')[0])); p = P(ts)
        p.type(); name = p.next()[1:]; p.expect('('); args = []
        while not p.eat(')'):
            ty = p.type(); args.append(p.next()); p.eat(',')
        blocks = {}; order = []; cur = str(len(args)); blocks[cur] = []; order.append(cur)
        acc = None
        for line in b.split('\n'):
            line = line.split(', !')[0].rstrip(); line = re.sub(r' #\d+$', '', line)
            s = line.strip()
            if not s or s.startswith(';'): continue
            mm_ = re.match(r'^([\w.]+):', line)
            if mm_: cur = mm_.group(1); blocks[cur] = []; order.append(cur); continue
            if acc is not None:
                acc += ' ' + s
                if s.startswith(']'): blocks[cur].append(acc); acc = None
                continue
            if s.startswith('switch') and not s.endswith(']'): acc = s; continue
            blocks[cur].append(s)
        M.funcs[name] = {'args': args, 'blocks': {k: [parse_inst(l) for l in v] for k, v in blocks.items()}, 'entry': order[0]}

def parse_inst(l):
    ts = strip_attrs(toks(l)); p = P(ts); dest = None
    if len(ts) > 1 and ts[1] == '=': dest = p.next(); p.next()
    op = p.next()
    if op == 'phi':
        ty = p.type(); inc = {}
        while p.eat('['):
            v = parse_operand(p, ty); p.expect(','); pred = p.next()[1:]; p.expect(']'); p.eat(','); inc[pred] = v
        return ('phi', dest, inc)
    if op == 'alloca': ty = p.type(); return ('alloca', dest, sizeof(ty))
    if op == 'load':
        ty = p.type(); p.expect(','); pty = p.type(); return ('load', dest, ty, parse_operand(p, pty))
    if op == 'store':
        ty = p.type(); v = parse_operand(p, ty); p.expect(','); pty = p.type(); return ('store', ty, v, parse_operand(p, pty))
    if op == 'getelementptr': return ('mov', dest, parse_gep(p))
    if op in ('bitcast', 'freeze'):
        sty = p.type(); v = parse_operand(p, sty); return ('mov', dest, v)
    if op in ('zext', 'sext', 'trunc', 'ptrtoint', 'inttoptr'):
        sty = p.type(); v = parse_operand(p, sty); p.expect('to'); dty = p.type(); return (op, dest, sty, v, dty)
    if op == 'icmp':
        pred = p.next(); ty = p.type(); a = parse_operand(p, ty); p.expect(','); b = parse_operand(p, ty); return ('icmp', dest, pred, ty, a, b)
    if op in ('add','sub','mul','and','or','xor','shl','lshr','ashr','sdiv','udiv','srem','urem'):
        ty = p.type(); a = parse_operand(p, ty); p.expect(','); b = parse_operand(p, ty); return ('bin', dest, op, ty, a, b)
    if op == 'select':
        ct = p.type(); c = parse_operand(p, ct); p.expect(','); ty = p.type(); a = parse_operand(p, ty); p.expect(','); p.type(); b = parse_operand(p, ty); return ('select', dest, c, a, b)
    if op == 'call':
        rty = p.type(); callee = p.next(); p.expect('('); a = []
        while not p.eat(')'):
            ty = p.type(); a.append((ty, parse_operand(p, ty))); p.eat(',')
        return ('call', dest, rty, callee, a)
    if op == 'br':
        if p.eat('label'): return ('br', p.next()[1:])
        ty = p.type(); c = parse_operand(p, ty); p.expect(','); p.expect('label'); t1 = p.next()[1:]; p.expect(','); p.expect('label'); return ('cbr', c, t1, p.next()[1:])
    if op == 'switch':
        ty = p.type(); v = parse_operand(p, ty); p.expect(','); p.expect('label'); d = p.next()[1:]; p.expect('['); groups = {}
        while not p.eat(']'):
            t2 = p.type(); cv = parse_operand(p, t2); p.expect(','); p.expect('label'); groups.setdefault(p.next()[1:], []).append(cv[1])
        return ('switch', ty, v, d, groups)
    if op == 'ret':
        ty = p.type()
        return ('ret', None if isinstance(ty, VoidT) else parse_operand(p, ty))
    if op == 'unreachable': return ('unreachable',)
    raise Exception('inst ' + l)

# ---------------- state
class St:
    __slots__ = ('mem', 'frames', 'nobj', 'live')
    def clone(s):
        n = St(); n.mem = {k: (v[0], list(v[1]), v[2]) for k, v in s.mem.items()}
        n.frames = [(f[0], f[1], f[2], dict(f[3]), f[4], f[5]) if f[0] != '$done' else f for f in s.frames]; n.nobj = s.nobj; n.live = set(s.live); return n

stats = {'paths': 0, 'instr': 0, 'queries': 0, 'solver_s': 0.0, 'outcomes': {}}
solver = z3.Solver()
globj = {}

def new_obj(st, size, kind):
    st.nobj += 1; st.mem[st.nobj] = (size, [0] * size, kind); return st.nobj

def init_globals(st):
    for name, txt in M.gtext.items():
        m = re.match(r'(?:[\w() ]+? )?(?:global|constant) (.*?)(?:, align \d+)?$', txt)
        p = P(toks(m.group(1))); ty = p.type(); oid = new_obj(st, sizeof(ty), 'g'); globj[name] = oid
    for name, txt in M.gtext.items():
        m = re.match(r'(?:[\w() ]+? )?(?:global|constant) (.*?)(?:, align \d+)?$', txt)
        body = m.group(1)
        ms = re.search(r' c"(.*)"$', body)
        if ms:
            bs = re.sub(r'\\([0-9A-Fa-f]{2})', lambda k: chr(int(k.group(1), 16)), ms.group(1))
            for i, ch in enumerate(bs): st.mem[globj[name]][1][i] = ord(ch)
            continue
        p = P(strip_attrs(toks(body))); ty = p.type()
        if p.peek() is None or p.peek() == 'zeroinitializer': continue
        init_const(st, globj[name], 0, ty, p)

def init_const(st, oid, off, ty, p):
    if isinstance(ty, StructT):
        if p.eat('zeroinitializer'): return
        p.expect('{'); offs = layout(ty.name)[1]
        for i, et in enumerate(M.structs[ty.name]):
            t2 = p.type(); init_const(st, oid, off + offs[i], t2, p); p.eat(',')
        p.expect('}'); return
    if isinstance(ty, ArrT):
        if p.eat('zeroinitializer'): return
        p.expect('[')
        for i in range(ty.n):
            t2 = p.type(); init_const(st, oid, off + i * sizeof(ty.el), t2, p); p.eat(',')
        p.expect(']'); return
    v = parse_operand(p, ty)
    store(st, ('P', oid, off), ty, ev(st, None, v))

def ev(st, regs, o):
    k = o[0]
    if k == 'r': return regs[o[1]]
    if k == 'k': return o[1]
    if k == 'g':
        if o[1] in globj: return ('P', globj[o[1]], 0)
        return ('F', o[1])
    if k == 'p2i': return ('I', ev(st, regs, o[1]))
    if k == 'gep':
        b = ev(st, regs, o[1]); off = b[2] + o[3]
        for scale, ix, bits in o[2]:
            i = ev(st, regs, ix)
            if not isinstance(i, int): raise Exception('symbolic index')
            if i >= 1 << (bits - 1): i -= 1 << bits
            off += scale * i
        return ('P', b[1], off)
    raise Exception(o)

class Violation(Exception): pass

def load(st, ptr, ty):
    if ptr[1] is None or ptr[1] not in st.mem: raise Violation('bad deref %s' % (ptr,))
    size, cells, kind = st.mem[ptr[1]]; n = sizeof(ty); off = ptr[2]
    if kind == 'dead': raise Violation('use after free')
    if off < 0 or off + n > size: raise Violation('OOB load obj%d off %d size %d' % (ptr[1], off, size))
    bs = cells[off:off + n]
    if isinstance(ty, PtrT):
        b0 = bs[0]
        if isinstance(b0, tuple): return b0[1]
        return NULL
    if all(isinstance(b, int) for b in bs):
        v = 0
        for i, b in enumerate(bs): v |= b << (8 * i)
        return v
    parts = [(z3.BitVecVal(b, 8) if isinstance(b, int) else b) for b in bs]
    return parts[0] if n == 1 else z3.Concat(*parts[::-1])

def store(st, ptr, ty, v):
    if ptr[1] is None or ptr[1] not in st.mem: raise Violation('bad deref store')
    size, cells, kind = st.mem[ptr[1]]; n = sizeof(ty); off = ptr[2]
    if kind == 'dead': raise Violation('use after free (store)')
    if kind == 'ro': raise Violation('store to read-only object')
    if off < 0 or off + n > size: raise Violation('OOB store')
    if isinstance(v, tuple):
        for i in range(n): cells[off + i] = ('p', v, i)
    elif isinstance(v, int):
        for i in range(n): cells[off + i] = (v >> (8 * i)) & 255
    else:
        for i in range(n): cells[off + i] = z3.simplify(z3.Extract(8 * i + 7, 8 * i, v))

def feasible(c):
    t0 = time.time(); solver.push(); solver.add(c); r = solver.check(); solver.pop(); stats['queries'] += 1; stats['solver_s'] += time.time() - t0
    return r == z3.sat

def tobv(v, bits): return z3.BitVecVal(v, bits) if isinstance(v, int) else v

def run(st):
    # executes until a symbolic fork or end; DFS via recursion on forks
    while True:
        if st.frames[-1][0] == '$done':
            top = st.frames.pop(); record(st, top[1]); continue
        fn, blk, ip, regs, prev, rdest = st.frames[-1]
        insts = M.funcs[fn]['blocks'][blk]
        # phi handling at block entry
        if ip == 0:
            vals = {}
            while ip < len(insts) and insts[ip][0] == 'phi':
                vals[insts[ip][1]] = ev(st, regs, insts[ip][2][prev]); ip += 1
            regs.update(vals)
        jump = None
        while ip < len(insts):
            I = insts[ip]; ip += 1; op = I[0]; stats['instr'] += 1
            if op == 'mov': regs[I[1]] = ev(st, regs, I[2])
            elif op == 'load': regs[I[1]] = load(st, ev(st, regs, I[3]), I[2])
            elif op == 'store': store(st, ev(st, regs, I[3]), I[1], ev(st, regs, I[2]))
            elif op == 'alloca': regs[I[1]] = ('P', new_obj(st, I[2], 's'), 0)
            elif op == 'icmp':
                a = ev(st, regs, I[4]); b = ev(st, regs, I[5]); pred = I[2]
                if isinstance(a, tuple) or isinstance(b, tuple):
                    if pred in ('eq', 'ne'): r = (a == b); r = r if pred == 'eq' else not r
                    else:
                        if a[1] != b[1]: raise Violation('relational compare of pointers into different objects in %s: %s %s %s' % ([f[0] for f in st.frames], I, a, b))
                        x, y = a[2], b[2]; r = {'ult': x < y, 'ule': x <= y, 'ugt': x > y, 'uge': x >= y}[pred]
                    regs[I[1]] = int(r)
                elif isinstance(a, int) and isinstance(b, int):
                    bits = I[3].bits
                    if pred[0] == 's':
                        if a >= 1 << (bits - 1): a -= 1 << bits
                        if b >= 1 << (bits - 1): b -= 1 << bits
                    regs[I[1]] = int({'eq': a == b, 'ne': a != b, 'ult': a < b, 'ule': a <= b, 'ugt': a > b, 'uge': a >= b, 'slt': a < b, 'sle': a <= b, 'sgt': a > b, 'sge': a >= b}[pred])
                else:
                    bits = I[3].bits; x = tobv(a, bits); y = tobv(b, bits)
                    regs[I[1]] = {'eq': x == y, 'ne': x != y, 'ult': z3.ULT(x, y), 'ule': z3.ULE(x, y), 'ugt': z3.UGT(x, y), 'uge': z3.UGE(x, y), 'slt': x < y, 'sle': x <= y, 'sgt': x > y, 'sge': x >= y}[pred]
            elif op == 'bin':
                a = ev(st, regs, I[4]); b = ev(st, regs, I[5]); bits = I[3].bits; o2 = I[2]
                if isinstance(a, tuple) and isinstance(b, tuple) and a[0] == 'I' and b[0] == 'I' and o2 == 'sub':
                    if a[1][1] != b[1][1]: regs[I[1]] = 0xDEAD; continue
                    regs[I[1]] = (a[1][2] - b[1][2]) & ((1 << bits) - 1); continue
                if isinstance(a, tuple) or isinstance(b, tuple): raise Exception('ptr arith')
                if isinstance(a, int) and isinstance(b, int):
                    m = (1 << bits) - 1
                    sa = a - (1 << bits) if a >> (bits - 1) else a; sb = b - (1 << bits) if b >> (bits - 1) else b
                    r = {'add': a + b, 'sub': a - b, 'mul': a * b, 'and': a & b, 'or': a | b, 'xor': a ^ b, 'shl': a << b, 'lshr': a >> b, 'udiv': a // b if b else 0, 'urem': a % b if b else 0, 'sdiv': int(sa / sb) if sb else 0, 'srem': 0, 'ashr': sa >> b}[o2]
                    regs[I[1]] = r & m
                else:
                    x = tobv(a, bits); y = tobv(b, bits)
                    regs[I[1]] = z3.simplify({'add': x + y, 'sub': x - y, 'mul': x * y, 'and': x & y, 'or': x | y, 'xor': x ^ y, 'shl': x << y, 'lshr': z3.LShR(x, y), 'udiv': z3.UDiv(x, y), 'urem': z3.URem(x, y), 'sdiv': x / y, 'srem': z3.SRem(x, y), 'ashr': x >> y}[o2])
            elif op in ('zext', 'sext', 'trunc'):
                v = ev(st, regs, I[3]); sb = I[2].bits; db = I[4].bits
                if isinstance(v, int):
                    if op == 'sext' and v >> (sb - 1): v |= ((1 << db) - 1) ^ ((1 << sb) - 1)
                    regs[I[1]] = v & ((1 << db) - 1)
                elif z3.is_bool(v):
                    regs[I[1]] = z3.If(v, z3.BitVecVal(1, db), z3.BitVecVal(0, db)) if op == 'zext' else None
                else:
                    regs[I[1]] = z3.ZeroExt(db - sb, v) if op == 'zext' else z3.SignExt(db - sb, v) if op == 'sext' else z3.Extract(db - 1, 0, v)
            elif op == 'ptrtoint':
                v = ev(st, regs, I[3]); regs[I[1]] = ('I', v)   # tagged; only sub of two such is supported
            elif op == 'select':
                c = ev(st, regs, I[2])
                if isinstance(c, int): regs[I[1]] = ev(st, regs, I[3] if c else I[4])
                else: jump = ('fork_select', I, c); break
            elif op == 'call':
                callee = I[3]
                fnv = ('F', callee[1:]) if callee.startswith('@') else regs[callee]
                name = fnv[1]; args = [ev(st, regs, a[1]) for a in I[4]]
                if name.startswith('llvm.lifetime'): continue
                if name.startswith('llvm.memset') or name == 'memset':
                    for i in range(args[2]): store(st, ('P', args[0][1], args[0][2] + i), IntT(8), args[1])
                    if I[1]: regs[I[1]] = args[0]
                    continue
                if name.startswith('llvm.memcpy') or name == 'memcpy':
                    src = st.mem[args[1][1]][1];
                    if args[2]:
                        load(st, args[1], ArrT(args[2], IntT(8))) if False else None
                        ssz = st.mem[args[1][1]][0]; dsz, dc, dk = st.mem[args[0][1]]
                        if args[1][2] < 0 or args[1][2] + args[2] > ssz or args[0][2] < 0 or args[0][2] + args[2] > dsz: raise Violation('OOB memcpy')
                        dc[args[0][2]:args[0][2] + args[2]] = src[args[1][2]:args[1][2] + args[2]]
                    continue
                if name == 'uk_sym_bytes':
                    cells = st.mem[args[0][1]][1]
                    for i in range(args[1]): cells[args[0][2] + i] = z3.BitVec('b%d' % i, 8)
                    continue
                if name == 'uk_sym_int':
                    stats['nint'] = stats.get('nint', 0) + 1; regs[I[1]] = z3.BitVec('i%d' % stats['nint'], 32); continue
                if name == 'uk_assume':
                    c = args[0]
                    if isinstance(c, int):
                        if not c: return
                        continue
                    c = (c != 0)
                    if not feasible(c): return
                    solver.add(c); continue
                if name == 'uk_malloc':
                    oid = new_obj(st, args[0], 'h'); st.live.add(oid); regs[I[1]] = ('P', oid, 0); continue
                if name == 'uk_free':
                    if args[0][1] is None: continue
                    if args[0][1] not in st.live or args[0][2] != 0: raise Violation('invalid free')
                    st.live.discard(args[0][1]); s_, c_, k_ = st.mem[args[0][1]]; st.mem[args[0][1]] = (s_, c_, 'dead'); continue
                if name == 'uk_done':
                    record(st, args); continue
                if name not in M.funcs: raise Exception('extern ' + name)
                st.frames[-1] = (fn, blk, ip, regs, prev, rdest)
                f = M.funcs[name]; st.frames.append((name, f['entry'], 0, dict(zip(f['args'], args)), None, I[1]))
                jump = ('called',); break
            elif op == 'br': jump = ('goto', I[1]); break
            elif op == 'cbr':
                c = ev(st, regs, I[1])
                if isinstance(c, int): jump = ('goto', I[2] if c else I[3])
                else: jump = ('fork', [(c, I[2]), (z3.Not(c), I[3])])
                break
            elif op == 'switch':
                v = ev(st, regs, I[2])
                if isinstance(v, int):
                    tgt = I[3]
                    for t, vs in I[4].items():
                        if v in vs: tgt = t
                    jump = ('goto', tgt)
                else:
                    bits = I[1].bits; alts = []; allc = []
                    for t, vs in I[4].items():
                        c = z3.Or([v == z3.BitVecVal(x, bits) for x in vs]); alts.append((c, t)); allc.append(c)
                    alts.append((z3.Not(z3.Or(allc)), I[3])); jump = ('fork', alts)
                break
            elif op == 'ret':
                rv = ev(st, regs, I[1]) if I[1] is not None else None
                jump = ('ret', rv); break
            elif op == 'unreachable': raise Violation('unreachable')
            else: raise Exception(op)
        # handle special frames
        if jump is None:
            # fell into '$done' marker frame push
            top = st.frames[-1]
            if top[0] == '$done':
                st.frames.pop(); st.outcome = None
                record(st, top[1]); continue
            raise Exception('fell off block')
        k = jump[0]
        if k == 'goto': st.frames[-1] = (fn, jump[1], 0, regs, blk, rdest)
        elif k == 'called':
            # callee frame: store dest register name in slot 4 ('prev' for entry has no phis)
            continue
        elif k == 'ret':
            callee_frame = st.frames.pop()
            if not st.frames:
                stats['paths'] += 1
                if st.live: raise Violation('leak %d blocks' % len(st.live))
                return
            dest = callee_frame[5]
            if dest: st.frames[-1][3][dest] = jump[1]
        elif k == 'fork':
            st.frames[-1] = (fn, blk, ip, regs, prev, rdest)
            feas = [(c, t) for c, t in jump[1] if feasible(c)]
            for i, (c, t) in enumerate(feas):
                s2 = st.clone() if i + 1 < len(feas) else st
                s2.frames[-1] = (fn, t, 0, s2.frames[-1][3], blk, rdest)
                solver.push(); solver.add(c)
                run(s2)
                solver.pop()
            return
        elif k == 'fork_select':
            I, c = jump[1], jump[2]
            st.frames[-1] = (fn, blk, ip, regs, prev, rdest)
            for cond, src in ((c, I[3]), (z3.Not(c), I[4])):
                if not feasible(cond): continue
                s2 = st.clone(); r2 = s2.frames[-1][3]; r2[I[1]] = ev(s2, r2, src)
                solver.push(); solver.add(cond); run(s2); solver.pop()
            return

def record(st, args):
    key = (args[0], args[1] if isinstance(args[1], int) else 'sym')
    stats['outcomes'][key] = stats['outcomes'].get(key, 0) + 1

def main():
    load_module(sys.argv[1])
    st = St(); st.mem = {}; st.frames = []; st.nobj = 0; st.live = set()
    init_globals(st)
    f = M.funcs['main']; st.frames.append(('main', f['entry'], 0, {}, None, None))
    t0 = time.time()
    try:
        run(st)
    except Violation as e:
        print('VIOLATION', e, solver.check(), solver.model() if solver.check() == z3.sat else None)
    print('wall %.1fs paths %d instr %d queries %d solver %.1fs' % (time.time() - t0, stats['paths'], stats['instr'], stats['queries'], stats['solver_s']))
    print('outcomes', sorted(stats['outcomes'].items())[:30])
main()
