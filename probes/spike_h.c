#include <uriparser/Uri.h>
#include <string.h>
#ifndef N
#define N 4
#endif
extern void uk_sym_bytes(void *p, unsigned long n);
extern void uk_done(int rc, long errpos);
extern void *uk_malloc(unsigned long n);
extern void uk_free(void *p);
static void *mm_malloc(UriMemoryManager *m, size_t n){ return uk_malloc(n); }
static void *mm_calloc(UriMemoryManager *m, size_t a, size_t b){ void *p = uk_malloc(a*b); memset(p, 0, a*b); return p; }
static void *mm_realloc(UriMemoryManager *m, void *p, size_t n){ return 0; }
static void *mm_reallocarray(UriMemoryManager *m, void *p, size_t a, size_t b){ return 0; }
static void mm_free(UriMemoryManager *m, void *p){ uk_free(p); }
static UriMemoryManager mm = { mm_malloc, mm_calloc, mm_realloc, mm_reallocarray, mm_free, 0 };
static char buf[N];
int main(void){
  UriUriA uri; const char *errorPos = 0;
  uk_sym_bytes(buf, N);
  int r = uriParseSingleUriExMmA(&uri, buf, buf + N, &errorPos, &mm);
  uk_done(r, errorPos ? errorPos - buf : -1);
  if (r == 0) uriFreeUriMembersMmA(&uri, &mm);
  return 0;
}
