/* Oracle S: component splitter for an RFC 3986 URI-reference that oracle G accepted.
 * RFC 3986 Appendix B regular expression coded on indices, authority split, host classification by G's
 * sub-automata, numeric evaluation of IPv4 / IPv6 text.  Independent of the library.  CH = character type. */
#ifndef ORACLE_SPLIT_H
#define ORACLE_SPLIT_H
#include "oracle_dfa.h"

#define HK_NONE 0
#define HK_REGNAME 1
#define HK_IP4 2
#define HK_IP6 3
#define HK_FUTURE 4
#define OS_MAXSEG 24

typedef struct {
  long sch_a, sch_b;      /* [a,b) or -1,-1 when absent */
  int  has_auth;
  long ui_a, ui_b;
  long host_a, host_b;    /* host text without brackets */
  int  hostkind;
  long port_a, port_b;
  long path_a, path_b;
  int  abs_path;          /* no authority and path begins with '/' */
  int  nseg; long seg_a[OS_MAXSEG], seg_b[OS_MAXSEG];
  long q_a, q_b, f_a, f_b;
  unsigned char ip[16];   /* ip4: first 4; ip6: all 16; each may be symbolic */
} os_split_t;

static int os_is(unsigned long c, char x){ return c == (unsigned long)(unsigned char)x; }

static int os_run(int (*step)(int, unsigned long), const unsigned char *acc, const CH *t, long a, long b){
  int s = 0; long i;
  for (i = a; i < b; i++) s = step(s, (unsigned long)(UCH)t[i]);
  return acc[s];
}
static unsigned os_hexval(unsigned long c){
  if (c >= '0' && c <= '9') return (unsigned)(c - '0');
  if (c >= 'a' && c <= 'f') return (unsigned)(c - 'a' + 10);
  return (unsigned)(c - 'A' + 10);
}
/* dotted quad at [a,b) (already known to match IPv4address) -> 4 bytes */
static void os_eval_ip4(const CH *t, long a, long b, unsigned char *out){
  long i; int k = 0; unsigned v = 0;
  for (i = a; i < b; i++){
    unsigned long c = (unsigned long)(UCH)t[i];
    if (os_is(c, '.')) { out[k++] = (unsigned char)v; v = 0; }
    else v = v * 10 + (unsigned)(c - '0');
  }
  out[k] = (unsigned char)v;
}
/* IPv6address text at [a,b) (already known to match) -> 16 bytes */
static void os_eval_ip6(const CH *t, long a, long b, unsigned char *out){
  unsigned short g[10]; int ng = 0, zip = -1, k, oi = 0; long i = a, j, v4 = -1, lastcolon = a - 1; int dot = 0;
  for (j = a; j < b; j++){ unsigned long c = (unsigned long)(UCH)t[j]; if (os_is(c, ':')) lastcolon = j; if (os_is(c, '.')) dot = 1; }
  if (dot) v4 = lastcolon + 1;   /* embedded IPv4 tail */
  while (i < b){
    if (os_is((unsigned long)(UCH)t[i], ':')){
      if (i + 1 < b && os_is((unsigned long)(UCH)t[i + 1], ':')) { zip = ng; i += 2; }
      else if (i + 1 == b && zip < 0 && 0) i++;
      else i++;
      continue;
    }
    if (i == v4){
      unsigned char q[4]; os_eval_ip4(t, v4, b, q);
      g[ng++] = (unsigned short)(q[0] * 256u + q[1]); g[ng++] = (unsigned short)(q[2] * 256u + q[3]); i = b;
    } else {
      unsigned v = 0;
      while (i < b && !os_is((unsigned long)(UCH)t[i], ':')){ v = v * 16 + os_hexval((unsigned long)(UCH)t[i]); i++; }
      g[ng++] = (unsigned short)v;
    }
  }
  for (k = 0; k <= ng; k++){
    if (k == zip){ int z; for (z = 0; z < 8 - ng; z++){ out[oi++] = 0; out[oi++] = 0; } }
    if (k < ng){ out[oi++] = (unsigned char)(g[k] >> 8); out[oi++] = (unsigned char)(g[k] & 255); }
  }
}

static void os_split(const CH *t, long n, os_split_t *o){
  long i = 0, j;
  o->sch_a = o->sch_b = -1; o->has_auth = 0; o->ui_a = o->ui_b = -1; o->host_a = o->host_b = -1; o->hostkind = HK_NONE;
  o->port_a = o->port_b = -1; o->q_a = o->q_b = -1; o->f_a = o->f_b = -1; o->nseg = 0; o->abs_path = 0;
  /* (([^:/?#]+):)? */
  for (j = 0; j < n; j++){
    unsigned long c = (unsigned long)(UCH)t[j];
    if (os_is(c, ':')) { if (j > 0) { o->sch_a = 0; o->sch_b = j; i = j + 1; } break; }
    if (os_is(c, '/') || os_is(c, '?') || os_is(c, '#')) break;
  }
  /* (//([^/?#]*))? */
  if (i + 1 < n && os_is((unsigned long)(UCH)t[i], '/') && os_is((unsigned long)(UCH)t[i + 1], '/')){
    long a = i + 2, b, at = -1, h;
    for (b = a; b < n; b++){ unsigned long c = (unsigned long)(UCH)t[b]; if (os_is(c, '/') || os_is(c, '?') || os_is(c, '#')) break; }
    o->has_auth = 1;
    for (j = a; j < b; j++) if (os_is((unsigned long)(UCH)t[j], '@')) { at = j; break; }
    h = a;
    if (at >= 0){ o->ui_a = a; o->ui_b = at; h = at + 1; }
    if (h < b && os_is((unsigned long)(UCH)t[h], '[')){
      long e = h + 1; while (e < b && !os_is((unsigned long)(UCH)t[e], ']')) e++;
      o->host_a = h + 1; o->host_b = e;
      if (h + 1 < e && (os_is((unsigned long)(UCH)t[h + 1], 'v') || os_is((unsigned long)(UCH)t[h + 1], 'V'))) o->hostkind = HK_FUTURE;
      else { o->hostkind = HK_IP6; os_eval_ip6(t, h + 1, e, o->ip); }
      if (e + 1 < b) { o->port_a = e + 2; o->port_b = b; }
    } else {
      long e = h; while (e < b && !os_is((unsigned long)(UCH)t[e], ':')) e++;
      o->host_a = h; o->host_b = e;
      if (os_run(dfa_ip4_step, dfa_ip4_accept, t, h, e)) { o->hostkind = HK_IP4; os_eval_ip4(t, h, e, o->ip); }
      else o->hostkind = HK_REGNAME;
      if (e < b) { o->port_a = e + 1; o->port_b = b; }
    }
    i = b;
  }
  /* ([^?#]*) */
  o->path_a = i;
  while (i < n && !os_is((unsigned long)(UCH)t[i], '?') && !os_is((unsigned long)(UCH)t[i], '#')) i++;
  o->path_b = i;
  { long a = o->path_a, b = o->path_b;
    if (a < b){
      int lead = os_is((unsigned long)(UCH)t[a], '/');
      if (lead && !o->has_auth) o->abs_path = 1;
      if (lead) a++;
      if (!(lead && !o->has_auth && a == b)){   /* "/" alone (path-absolute without segment-nz) has no segment */
        long s = a;
        for (j = a; j <= b; j++){
          if (j == b || os_is((unsigned long)(UCH)t[j], '/')){ if (o->nseg < OS_MAXSEG){ o->seg_a[o->nseg] = s; o->seg_b[o->nseg] = j; } o->nseg++; s = j + 1; }
        }
      }
    }
  }
  /* (\?([^#]*))? */
  if (i < n && os_is((unsigned long)(UCH)t[i], '?')){
    o->q_a = i + 1; while (i < n && !os_is((unsigned long)(UCH)t[i], '#')) i++;
    o->q_b = i;
  }
  /* (#(.*))? */
  if (i < n && os_is((unsigned long)(UCH)t[i], '#')){ o->f_a = i + 1; o->f_b = n; }
}
#endif
