#!/usr/bin/env python3
"""Oracle G: build minimal DFAs for rules of the RFC 3986 ABNF shipped in the repository (doc/rfc3986_grammar_only.txt)
and emit them as C (nested switch step functions, so a symbolic character forks once per distinct successor).
Independent of the library's parser: the only input is the ABNF text."""
import re, sys

CORE = {
    'ALPHA': [(0x41, 0x5A), (0x61, 0x7A)],
    'DIGIT': [(0x30, 0x39)],
    'HEXDIG': [(0x30, 0x39), (0x41, 0x46), (0x61, 0x66)],   # RFC 5234: "A".."F" literals are case-insensitive
}

def strip_comment(line):
    q = False
    for i, ch in enumerate(line):
        if ch == '"': q = not q
        elif ch == ';' and not q: return line[:i]
    return line

def read_rules(path):
    rules = {}; cur = None
    for line in open(path):
        line = strip_comment(line.rstrip('\n'))
        if not line.strip(): continue
        m = re.match(r'^([A-Za-z][\w-]*)\s*=\s*(.*)$', line)
        if m and not line[0].isspace():
            cur = m.group(1); rules[cur] = m.group(2)
        else:
            rules[cur] += ' ' + line.strip()
    return rules

TOK = re.compile(r'\s*("[^"]*"|%x[0-9A-Fa-f]+(?:-[0-9A-Fa-f]+)?|<[^>]*>|\d*\*\d*|\d+|[A-Za-z][\w-]*|[()\[\]/])')
def tokenize(s):
    out = []; i = 0
    while i < len(s):
        m = TOK.match(s, i)
        if not m:
            if s[i:].strip() == '': break
            raise Exception('abnf token: ' + s[i:])
        out.append(m.group(1)); i = m.end()
    return out

# AST: ('alt',[..]) ('cat',[..]) ('rep',lo,hi,node) ('set',[(lo,hi)..]) ('ref',name) ('eps',)
def parse_rule(ts):
    pos = [0]
    def peek(): return ts[pos[0]] if pos[0] < len(ts) else None
    def nxt(): pos[0] += 1; return ts[pos[0] - 1]
    def alt():
        items = [cat()]
        while peek() == '/': nxt(); items.append(cat())
        return items[0] if len(items) == 1 else ('alt', items)
    def cat():
        items = []
        while peek() is not None and peek() not in ('/', ')', ']'): items.append(rep())
        return items[0] if len(items) == 1 else ('cat', items)
    def rep():
        t = peek(); lo, hi = 1, 1
        if re.fullmatch(r'\d*\*\d*', t):
            nxt(); a, b = t.split('*'); lo = int(a) if a else 0; hi = int(b) if b else None
        elif re.fullmatch(r'\d+', t):
            nxt()
            if peek() is not None and peek().startswith('<'): lo = hi = int(t)
            else: lo = hi = int(t)
        e = elem()
        if (lo, hi) == (1, 1): return e
        return ('rep', lo, hi, e)
    def elem():
        t = nxt()
        if t == '(':
            e = alt(); assert nxt() == ')'; return e
        if t == '[':
            e = alt(); assert nxt() == ']'; return ('rep', 0, 1, e)
        if t.startswith('"'):
            s = t[1:-1]; items = []
            for ch in s:
                if ch.isalpha(): items.append(('set', [(ord(ch.lower()), ord(ch.lower())), (ord(ch.upper()), ord(ch.upper()))]))
                else: items.append(('set', [(ord(ch), ord(ch))]))
            return items[0] if len(items) == 1 else ('cat', items)
        if t.startswith('%x'):
            m = re.fullmatch(r'%x([0-9A-Fa-f]+)(?:-([0-9A-Fa-f]+))?', t); lo = int(m.group(1), 16); hi = int(m.group(2), 16) if m.group(2) else lo
            return ('set', [(lo, hi)])
        if t.startswith('<'): return ('ref', t[1:-1].strip())
        return ('ref', t)
    r = alt(); assert peek() is None, ts[pos[0]:]
    return r

class NFA:
    def __init__(s): s.eps = []; s.tr = []; s.tag = []
    def new(s, tag):
        s.eps.append([]); s.tr.append([]); s.tag.append(tag); return len(s.eps) - 1

def build(nfa, node, rules, asts, tag, tagrule):
    """returns (start, end) fragment; 'tag' marks states strictly inside the tagrule"""
    k = node[0]
    if k == 'set':
        a = nfa.new(tag); b = nfa.new(tag); nfa.tr[a].append((node[1], b)); return a, b
    if k == 'ref':
        name = node[1]
        if name in CORE: return build(nfa, ('set', CORE[name]), rules, asts, tag, tagrule)
        if name == tagrule:
            # entry/exit states are outside; everything between first and last symbol inside
            a, b = build_tagged(nfa, asts[name], rules, asts, tagrule)
            return a, b
        return build(nfa, asts[name], rules, asts, tag, tagrule)
    if k == 'cat':
        a = e = None
        for it in node[1]:
            x, y = build(nfa, it, rules, asts, tag, tagrule)
            if a is None: a = x
            else: nfa.eps[e].append(x)
            e = y
        return a, e
    if k == 'alt':
        a = nfa.new(tag); b = nfa.new(tag)
        for it in node[1]:
            x, y = build(nfa, it, rules, asts, tag, tagrule); nfa.eps[a].append(x); nfa.eps[y].append(b)
        return a, b
    if k == 'rep':
        lo, hi, e = node[1], node[2], node[3]
        a = nfa.new(tag); cur = a
        for _ in range(lo):
            x, y = build(nfa, e, rules, asts, tag, tagrule); nfa.eps[cur].append(x); cur = y
        if hi is None:
            x, y = build(nfa, e, rules, asts, tag, tagrule); l = nfa.new(tag)
            nfa.eps[cur].append(l); nfa.eps[l].append(x); nfa.eps[y].append(l); cur = l
        else:
            end = nfa.new(tag); nfa.eps[cur].append(end)
            for _ in range(hi - lo):
                x, y = build(nfa, e, rules, asts, tag, tagrule); nfa.eps[cur].append(x); cur = y; nfa.eps[cur].append(end)
            cur = end
        return a, cur
    raise Exception(k)

def build_tagged(nfa, node, rules, asts, tagrule):
    # IP-literal = "[" ( ... ) "]": the state after "[" up to (not including) the state after "]" are tagged
    assert node[0] == 'cat'
    first, mid, last = node[1][0], node[1][1:-1], node[1][-1]
    a, e = build(nfa, first, rules, asts, False, None)
    for it in mid:
        x, y = build(nfa, it, rules, asts, True, None); nfa.eps[e].append(x); e = y
    # retag the state reached right after "[" : it is 'e' of first -> mark tagged
    nfa.tag[build_tagged.after_open(nfa, a)] = True
    x, y = build(nfa, last, rules, asts, False, None)
    nfa.tag[x] = True
    nfa.eps[e].append(x)
    return a, y
def _after_open(nfa, a):
    return nfa.tr[a][0][1]
build_tagged.after_open = _after_open

def closure(nfa, S):
    st = list(S); seen = set(S)
    while st:
        q = st.pop()
        for r in nfa.eps[q]:
            if r not in seen: seen.add(r); st.append(r)
    return frozenset(seen)

def determinize(nfa, start, final, nsym=256):
    s0 = closure(nfa, [start]); ids = {s0: 0}; order = [s0]; trans = []
    i = 0
    while i < len(order):
        S = order[i]; i += 1; row = []
        # per symbol
        moves = {}
        for q in S:
            for rngs, t in nfa.tr[q]:
                for lo, hi in rngs:
                    for c in range(lo, hi + 1): moves.setdefault(c, set()).add(t)
        cache = {}
        for c in range(nsym):
            if c not in moves: row.append(-1); continue
            key = frozenset(moves[c])
            if key not in cache:
                T = closure(nfa, key)
                if T not in ids: ids[T] = len(order); order.append(T)
                cache[key] = ids[T]
            row.append(cache[key])
        trans.append(row)
    acc = [final in S for S in order]
    return order, trans, acc

def minimize(trans, acc, extra):
    n = len(trans); DEAD = n
    trans = [list(r) for r in trans] + [[DEAD] * len(trans[0])]
    for r in trans:
        for c in range(len(r)):
            if r[c] == -1: r[c] = DEAD
    acc = acc + [False]; extra = extra + [None]
    # initial partition by (accepting, extra label)
    part = {}
    for s in range(n + 1): part.setdefault((acc[s], extra[s]), []).append(s)
    cls = [0] * (n + 1)
    for i, (k, v) in enumerate(sorted(part.items(), key=lambda kv: kv[1][0])):
        for s in v: cls[s] = i
    while True:
        sig = {}
        newcls = [0] * (n + 1)
        for s in range(n + 1):
            key = (cls[s], tuple(cls[t] for t in trans[s]))
            if key not in sig: sig[key] = len(sig)
            newcls[s] = sig[key]
        if len(sig) == len(set(cls)): cls = newcls; break
        cls = newcls
    # renumber in BFS order from start
    k = len(set(cls)); rep = {}
    for s in range(n + 1): rep.setdefault(cls[s], s)
    order = []; seen = {}
    def visit(c):
        if c in seen: return
        seen[c] = len(order); order.append(c)
    visit(cls[0]); i = 0
    while i < len(order):
        c = order[i]; i += 1
        for t in trans[rep[c]]: visit(cls[t])
    ntrans = [[seen[cls[t]] for t in trans[rep[c]]] for c in order]
    nacc = [acc[rep[c]] for c in order]; nextra = [extra[rep[c]] for c in order]
    dead = seen[cls[DEAD]] if cls[DEAD] in seen else -1
    return ntrans, nacc, nextra, dead

def make_dfa(rules, asts, startrule, tagrule=None):
    nfa = NFA()
    a, b = build(nfa, ('ref', startrule), rules, asts, False, tagrule)
    order, trans, acc = determinize(nfa, a, b)
    extra = []
    for S in order:
        # a DFA state is "inside the tagged rule" when every NFA state with outgoing symbol transitions or finality in it is tagged
        core = [q for q in S if nfa.tr[q] or q == b]
        extra.append(bool(core) and all(nfa.tag[q] for q in core))
    return minimize(trans, acc, extra if tagrule else [None] * len(order))

def emit(name, dfa, out):
    trans, acc, extra, dead = dfa; n = len(trans)
    out.append('#define %s_NSTATES %d' % (name.upper(), n))
    out.append('#define %s_DEAD %d' % (name.upper(), dead))
    out.append('static const unsigned char %s_accept[%d] = {%s};' % (name, n, ','.join('1' if a else '0' for a in acc)))
    if any(e is not None for e in extra):
        out.append('static const unsigned char %s_inlit[%d] = {%s};' % (name, n, ','.join('1' if e else '0' for e in extra)))
    out.append('static int %s_step(int s, unsigned long c){' % name)
    out.append('  if (c > 255) return %d;' % dead)
    out.append('  switch (s) {')
    for s in range(n):
        if s == dead: continue
        groups = {}
        for c in range(256):
            t = trans[s][c]
            if t != dead: groups.setdefault(t, []).append(c)
        out.append('  case %d: switch (c) {' % s)
        for t, cs in groups.items():
            out.append('    ' + ' '.join('case %d:' % c for c in cs) + ' return %d;' % t)
        out.append('    default: return %d; }' % dead)
    out.append('  default: return %d; }' % dead)
    out.append('}')

def main():
    src, dst = sys.argv[1], sys.argv[2]
    rules = read_rules(src); asts = {k: parse_rule(tokenize(v)) for k, v in rules.items()}
    out = ['/* generated by oracle/abnf2dfa.py from %s -- do not edit */' % src, '#ifndef ORACLE_DFA_H', '#define ORACLE_DFA_H']
    info = {}
    for cname, rule, tag in (('dfa_uriref', 'URI-reference', 'IP-literal'), ('dfa_ip4', 'IPv4address', None), ('dfa_ipfuture', 'IPvFuture', None),
                             ('dfa_ip6', 'IPv6address', None), ('dfa_query', 'query', None), ('dfa_regname', 'reg-name', None),
                             ('dfa_segment', 'segment', None), ('dfa_userinfo', 'userinfo', None), ('dfa_scheme', 'scheme', None)):
        d = make_dfa(rules, asts, rule, tag); emit(cname, d, out); info[rule] = len(d[0])
    out.append('#endif')
    open(dst, 'w').write('\n'.join(out) + '\n')
    print('states (incl. dead):', info)

if __name__ == '__main__': main()
