/* Oracle E: reference percent-escaper / decoder (RFC 3986 2.1, 2.3 + the documented space and line-break options).
 * Works on arrays of unsigned long code points; independent of the library. */
#ifndef ORACLE_ESCAPE_H
#define ORACLE_ESCAPE_H
static int oe_unreserved(unsigned long c){ return (c >= 'a' && c <= 'z') || (c >= 'A' && c <= 'Z') || (c >= '0' && c <= '9') || c == '-' || c == '.' || c == '_' || c == '~'; }
static unsigned long oe_hexup(unsigned long v){ return v < 10 ? '0' + v : 'A' + (v - 10); }
static int oe_ishex(unsigned long c){ return (c >= '0' && c <= '9') || (c >= 'a' && c <= 'f') || (c >= 'A' && c <= 'F'); }
static unsigned long oe_hexval(unsigned long c){ return c <= '9' ? c - '0' : c >= 'a' ? c - 'a' + 10 : c - 'A' + 10; }

/* escape in[0..n) -> out, returns length */
static long oe_escape(const unsigned long *in, long n, unsigned long *out, int space_to_plus, int normalize_breaks){
  long i, o = 0;
  for (i = 0; i < n; i++){
    unsigned long c = in[i];
    if (oe_unreserved(c)) out[o++] = c;
    else if (c == ' ' && space_to_plus) out[o++] = '+';
    else if (normalize_breaks && (c == 13 || c == 10)){
      if (c == 10 && i > 0 && in[i - 1] == 13) continue;            /* LF of a CR LF pair: already written */
      out[o++] = '%'; out[o++] = '0'; out[o++] = 'D'; out[o++] = '%'; out[o++] = '0'; out[o++] = 'A';
    }
    else { out[o++] = '%'; out[o++] = oe_hexup((c >> 4) & 15); out[o++] = oe_hexup(c & 15); }
  }
  return o;
}
/* the characters escaping should reproduce after decoding: the input, every line break turned into CR LF if requested */
static long oe_breaks_to_crlf(const unsigned long *in, long n, unsigned long *out){
  long i, o = 0;
  for (i = 0; i < n; i++){
    if (in[i] == 13){ out[o++] = 13; out[o++] = 10; if (i + 1 < n && in[i + 1] == 10) i++; }
    else if (in[i] == 10){ out[o++] = 13; out[o++] = 10; }
    else out[o++] = in[i];
  }
  return o;
}
#define OE_BR_TO_LF 0
#define OE_BR_TO_CRLF 1
#define OE_BR_TO_CR 2
#define OE_BR_DONT_TOUCH 3
/* decode in[0..n) -> out, returns length */
static long oe_unescape(const unsigned long *in, long n, unsigned long *out, int plus_to_space, int br){
  long i = 0, o = 0; int prev_cr = 0;   /* previous item was a decoded CR */
  while (i < n){
    unsigned long c = in[i];
    if (c == '%' && i + 2 < n && oe_ishex(in[i + 1]) && oe_ishex(in[i + 2])){
      unsigned long v = oe_hexval(in[i + 1]) * 16 + oe_hexval(in[i + 2]);
      if (v == 13){
        if (br == OE_BR_TO_LF) out[o++] = 10; else if (br == OE_BR_TO_CRLF){ out[o++] = 13; out[o++] = 10; } else out[o++] = 13;
        prev_cr = 1;
      } else if (v == 10){
        if (br == OE_BR_DONT_TOUCH) out[o++] = 10;
        else if (!prev_cr){ if (br == OE_BR_TO_LF) out[o++] = 10; else if (br == OE_BR_TO_CRLF){ out[o++] = 13; out[o++] = 10; } else out[o++] = 13; }
        prev_cr = 0;
      } else { out[o++] = v; prev_cr = 0; }
      i += 3;
    } else {
      out[o++] = (c == '+' && plus_to_space) ? ' ' : c; prev_cr = 0; i++;
    }
  }
  return o;
}
#endif
