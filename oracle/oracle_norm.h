/* Oracle N: RFC 3986 section 6.2.2 syntax-based normal form on strings (case, percent-encoding, dot segments), per component mask. */
#ifndef ORACLE_NORM_H
#define ORACLE_NORM_H
#include "oracle_resolve.h"

#define ON_SCHEME 1
#define ON_USERINFO 2
#define ON_HOST 4
#define ON_PATH 8
#define ON_QUERY 16
#define ON_FRAGMENT 32

static int on_is_unreserved(unsigned v){
  return (v >= 'a' && v <= 'z') || (v >= 'A' && v <= 'Z') || (v >= '0' && v <= '9') || v == '-' || v == '.' || v == '_' || v == '~';
}
static CH on_upperhex(unsigned v){ return (CH)(v < 10 ? '0' + v : 'A' + (v - 10)); }
static CH on_lowerch(CH c){ return (CHV(c) >= 'A' && CHV(c) <= 'Z') ? (CH)(c + ('a' - 'A')) : c; }

/* copy t[a,b) to out+o; fix: percent-encoding normalisation; lower: lowercase everything outside percent triplets */
static long on_copy(const CH *t, long a, long b, CH *out, long o, int fix, int lower){
  long i = a;
  while (i < b){
    if (os_is(CHV(t[i]), '%') && i + 2 < b && fix){
      unsigned v = os_hexval(CHV(t[i + 1])) * 16 + os_hexval(CHV(t[i + 2]));
      if (on_is_unreserved(v)){ CH c = (CH)v; out[o++] = lower ? on_lowerch(c) : c; }
      else { out[o++] = '%'; out[o++] = on_upperhex(v >> 4); out[o++] = on_upperhex(v & 15); }
      i += 3;
    } else if (os_is(CHV(t[i]), '%') && i + 2 < b && !fix){
      out[o++] = t[i]; out[o++] = t[i + 1]; out[o++] = t[i + 2]; i += 3;
    } else { out[o++] = lower ? on_lowerch(t[i]) : t[i]; i++; }
  }
  return o;
}

/* Classes of inputs whose plain dot-removal result cannot be written down as is without changing meaning; the exact
 * normal form there is not pinned down by C08 (C07/C09 constrain it).  Bits of on_unspecified: */
#define ON_CLS_DSLASH 1    /* no authority and the result path begins with "//" */
#define ON_CLS_COLON  2    /* relative-path reference whose first result segment contains ':' (and the input was not simply "./x:y...") */
#define ON_CLS_EMPTY  4    /* relative-path reference, non-empty path, empty result */
#define ON_CLS_ABS    8    /* relative-path reference whose result begins with '/' */
#define ON_CLS_ESSENTIAL 16 /* relative-path reference "./x:y...": the leading "." is essential and must stay */
static int on_classify_relative(const CH *in, long in_n, const CH *p, long n){
  long i; int colon = 0;
  if (n == 0) return in_n > 0 ? ON_CLS_EMPTY : 0;
  if (os_is(CHV(p[0]), '/')) return (n >= 2 && os_is(CHV(p[1]), '/')) ? (ON_CLS_ABS | ON_CLS_DSLASH) : ON_CLS_ABS;
  for (i = 0; i < n && !os_is(CHV(p[i]), '/'); i++) if (os_is(CHV(p[i]), ':')) colon = 1;
  if (!colon) return 0;
  /* input "./" directly followed by a colon-bearing segment: handled by the essential-dot rule */
  if (in_n >= 2 && os_is(CHV(in[0]), '.') && os_is(CHV(in[1]), '/')){
    int c2 = 0; for (i = 2; i < in_n && !os_is(CHV(in[i]), '/'); i++) if (os_is(CHV(in[i]), ':')) c2 = 1;
    if (c2) return ON_CLS_ESSENTIAL;
  }
  return ON_CLS_COLON;
}

static int on_unspecified;   /* set when the expected path text is outside what C08 pins down */

/* expected recomposed text of the URI parsed from t[0..n) after normalisation with mask */
static long on_normalize(const CH *t, long n, const os_split_t *s, unsigned mask, CH *out, CH *tmp, CH *tmp2){
  long o = 0; (void)n; on_unspecified = 0;
  if (s->sch_a >= 0){ o = on_copy(t, s->sch_a, s->sch_b, out, o, 0, (mask & ON_SCHEME) != 0); out[o++] = ':'; }
  if (s->has_auth){
    out[o++] = '/'; out[o++] = '/';
    if (s->ui_a >= 0){ o = on_copy(t, s->ui_a, s->ui_b, out, o, (mask & ON_USERINFO) != 0, 0); out[o++] = '@'; }
    if (s->hostkind == HK_REGNAME) o = on_copy(t, s->host_a, s->host_b, out, o, (mask & ON_HOST) != 0, (mask & ON_HOST) != 0);
    else if (s->hostkind == HK_FUTURE){ out[o++] = '['; o = on_copy(t, s->host_a, s->host_b, out, o, 0, (mask & ON_HOST) != 0); out[o++] = ']'; }
    else if (s->hostkind == HK_IP6){ out[o++] = '['; o = on_copy(t, s->host_a, s->host_b, out, o, 0, 0); out[o++] = ']'; }
    else o = on_copy(t, s->host_a, s->host_b, out, o, 0, 0);
    if (s->port_a >= 0){ out[o++] = ':'; o = on_copy(t, s->port_a, s->port_b, out, o, 0, 0); }
  }
  if (mask & ON_PATH){
    long pn = on_copy(t, s->path_a, s->path_b, tmp, 0, 1, 0), rn;
    int relref = s->sch_a < 0 && !s->has_auth && !(pn > 0 && os_is(CHV(tmp[0]), '/'));
    rn = or_remove_dots(tmp, pn, tmp2, relref);
    if (relref) on_unspecified |= on_classify_relative(tmp, pn, tmp2, rn);
    if (!s->has_auth && rn >= 2 && os_is(CHV(tmp2[0]), '/') && os_is(CHV(tmp2[1]), '/')) on_unspecified |= ON_CLS_DSLASH;
    o = or_copy(out, o, tmp2, 0, rn);
  } else o = on_copy(t, s->path_a, s->path_b, out, o, 0, 0);
  if (s->q_a >= 0){ out[o++] = '?'; o = on_copy(t, s->q_a, s->q_b, out, o, (mask & ON_QUERY) != 0, 0); }
  if (s->f_a >= 0){ out[o++] = '#'; o = on_copy(t, s->f_a, s->f_b, out, o, (mask & ON_FRAGMENT) != 0, 0); }
  return o;
}
#endif
