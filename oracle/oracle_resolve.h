/* Oracle R: RFC 3986 section 5.2 reference resolution and dot-segment removal on strings, plus recomposition (5.3).
 * Works from the texts and their oracle-S splits only; independent of the library. */
#ifndef ORACLE_RESOLVE_H
#define ORACLE_RESOLVE_H
#include "oracle_split.h"

static int or_seg_is_dot(const CH *t, long a, long b){ return b - a == 1 && os_is(CHV(t[a]), '.'); }
static int or_seg_is_dotdot(const CH *t, long a, long b){ return b - a == 2 && os_is(CHV(t[a]), '.') && os_is(CHV(t[a + 1]), '.'); }

/* Dot-segment removal on the segment structure of path in[0..n): the path keeps its kind (rooted stays rooted, rootless
 * stays rootless); "." is dropped, ".." drops the preceding kept segment (nothing if there is none); a trailing "." or ".."
 * leaves a trailing slash (an empty last segment).  With keep_leading_dotdot (normalisation of relative-path references)
 * ".." segments that have nothing to remove are kept.  Returns the output length. */
#define OR_MAXSEG 32
static int or_rooted;   /* set by or_remove_dots: was the input path rooted (began with '/') */
static long or_remove_dots(const CH *in, long n, CH *out, int keep_leading_dotdot){
  long sa[OR_MAXSEG], sb[OR_MAXSEG]; int isdd[OR_MAXSEG]; int ns = 0; long i, s, o = 0; int rooted = 0, k, trailing = 0;
  or_rooted = 0;
  if (n == 0) return 0;
  i = 0; if (os_is(CHV(in[0]), '/')){ rooted = 1; i = 1; }
  or_rooted = rooted;
  if (rooted && n == 1){ out[0] = '/'; return 1; }
  s = i;
  for (; i <= n; i++){
    if (i == n || os_is(CHV(in[i]), '/')){
      int last = (i == n);
      if (or_seg_is_dot(in, s, i)){ if (last) trailing = 1; }
      else if (or_seg_is_dotdot(in, s, i)){
        if (ns > 0 && !isdd[ns - 1]) { ns--; if (last) trailing = 1; }
        else if (keep_leading_dotdot && !rooted){ sa[ns] = s; sb[ns] = i; isdd[ns] = 1; ns++; }
        else if (last) trailing = 1;
      }
      else { sa[ns] = s; sb[ns] = i; isdd[ns] = 0; ns++; }
      s = i + 1;
    }
  }
  if (rooted) out[o++] = '/';
  for (k = 0; k < ns; k++){
    long j; if (k > 0) out[o++] = '/';
    for (j = sa[k]; j < sb[k]; j++) out[o++] = in[j];
  }
  if (trailing && ns > 0) out[o++] = '/';
  return o;
}

typedef struct { long n; int rel_base_error; } or_result_t;

static long or_copy(CH *d, long n, const CH *t, long a, long b){ long i; for (i = a; i < b; i++) d[n++] = t[i]; return n; }

/* 5.2.2 + 5.3 on (base text, ref text); writes the expected recomposed target into out and returns its length.
 * identical_scheme_compat: the non-strict branch.  The '/.' guard of the property statement is applied. */
static long or_resolve(const CH *bt, long bn, const os_split_t *b, const CH *rt, long rn, const os_split_t *r, int compat, CH *out, CH *tmp, CH *tmp2){
  int r_has_scheme = r->sch_a >= 0; long n = 0, pn = 0; int t_has_auth; const CH *at = 0; const os_split_t *as = 0;
  long qa = -1, qb = -1; const CH *qt = 0; int rooted = 1;
  (void)bn; (void)rn;
  if (compat && r_has_scheme){
    long l1 = r->sch_b - r->sch_a, l2 = b->sch_b - b->sch_a; int same = (l1 == l2); long i;
    for (i = 0; same && i < l1; i++) if (rt[r->sch_a + i] != bt[b->sch_a + i]) same = 0;
    if (same) r_has_scheme = 0;
  }
  if (r_has_scheme){
    n = or_copy(out, n, rt, r->sch_a, r->sch_b); t_has_auth = r->has_auth; at = rt; as = r;
    pn = or_remove_dots(rt + r->path_a, r->path_b - r->path_a, tmp, 0); rooted = or_rooted; qa = r->q_a; qb = r->q_b; qt = rt;
  } else {
    n = or_copy(out, n, bt, b->sch_a, b->sch_b);
    if (r->has_auth){
      t_has_auth = 1; at = rt; as = r; pn = or_remove_dots(rt + r->path_a, r->path_b - r->path_a, tmp, 0); qa = r->q_a; qb = r->q_b; qt = rt;
    } else {
      t_has_auth = b->has_auth; at = bt; as = b;
      if (r->path_a == r->path_b){
        pn = or_copy(tmp, 0, bt, b->path_a, b->path_b);
        if (r->q_a >= 0){ qa = r->q_a; qb = r->q_b; qt = rt; } else { qa = b->q_a; qb = b->q_b; qt = bt; }
      } else {
        if (os_is(CHV(rt[r->path_a]), '/')) pn = or_remove_dots(rt + r->path_a, r->path_b - r->path_a, tmp, 0);
        else {
          /* 5.2.3 merge */
          long m = 0;
          if (b->has_auth && b->path_a == b->path_b){ tmp2[m++] = '/'; }
          else { long last = -1, i; for (i = b->path_a; i < b->path_b; i++) if (os_is(CHV(bt[i]), '/')) last = i; if (last >= 0) m = or_copy(tmp2, 0, bt, b->path_a, last + 1); }
          m = or_copy(tmp2, m, rt, r->path_a, r->path_b);
          pn = or_remove_dots(tmp2, m, tmp, 0); rooted = or_rooted;
        }
        qa = r->q_a; qb = r->q_b; qt = rt;
      }
    }
  }
  out[n++] = ':';
  if (t_has_auth){
    long e;
    out[n++] = '/'; out[n++] = '/';
    /* authority text verbatim: from just after "//" to the start of the path */
    e = as->path_a;
    n = or_copy(out, n, at, (as->ui_a >= 0 ? as->ui_a : (as->hostkind == HK_IP6 || as->hostkind == HK_FUTURE ? as->host_a - 1 : as->host_a)), e);
  } else if (pn >= 2 && os_is(CHV(tmp[0]), '/') && os_is(CHV(tmp[1]), '/')){
    if (rooted){ out[n++] = '/'; out[n++] = '.'; }   /* the guard: one "." segment in front, so "//..." is not read as an authority */
    else { out[n++] = '.'; out[n++] = '/'; }
  }
  n = or_copy(out, n, tmp, 0, pn);
  if (qa >= 0){ out[n++] = '?'; n = or_copy(out, n, qt, qa, qb); }
  if (r->f_a >= 0){ out[n++] = '#'; n = or_copy(out, n, rt, r->f_a, r->f_b); }
  return n;
}
#endif
