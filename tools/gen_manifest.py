#!/usr/bin/env python3
"""Regenerate MANIFEST.json from checks/specs.py + checks/manifest_text.py (keeps the manifest and the specs in sync)."""
import sys, os, json
V = os.path.dirname(os.path.dirname(os.path.abspath(__file__))); sys.path.insert(0, V)
from checks import specs, manifest_text as T
props = [json.loads(l) for l in open(os.path.join(V, 'properties.jsonl'))]
checks = []; na = []
for p in props:
    pid = p['id']
    if pid in specs.SPECS and pid in T.TEXT:
        t = T.TEXT[pid]
        checks.append({'property_id': pid, 'quick_cmd': './check %s --tier quick' % pid, 'thorough_cmd': './check %s --tier thorough' % pid,
                       'evidence_file': 'evidence/%s.json' % pid, 'replay_cmd_template': './check %s --replay {path}' % pid,
                       'engine': t.get('engine', 'uksym'),
                       'level_claimed': {'category': 'model_checking', 'text': t['level'], 'design_ref': t.get('design_ref', 'DESIGN.md section 5, ' + pid)},
                       'level_note': t['note'], 'technique': t['technique']})
    else:
        na.append({'property_id': pid, 'reason': T.NA.get(pid, 'check not built yet in this round; no claim is made')})
m = {'version': 1,
     'setup_cmd': './setup.sh',
     'hooks': {'guard': 'URIPARSER_VERIF', 'enable': 'uksym/build.py and checks/cbmc_engine.py pass -DURIPARSER_VERIF to every compile of /repo/src; no source line is guarded by it (both engines consume the unmodified sources)',
               'baseline_off_cmd': 'cmake -G Ninja -S /repo -B /repo/_build && cmake --build /repo/_build && ctest --test-dir /repo/_build -j8 --timeout 900',
               'source_commits': [], 'add_only': True},
     'engines': [{'name': 'uksym', 'path': 'uksym/', 'serves_properties': [c['property_id'] for c in checks if c['engine'] != 'cbmc'],
                  'kind_free_text': 'own path-wise symbolic executor over clang-14 LLVM IR of /repo/src (regenerated per run); z3 decides every fork, assertion and memory-safety obligation; counterexamples replayed natively under ASan/UBSan'},
                 {'name': 'cbmc', 'path': 'checks/cbmc_engine.py', 'serves_properties': [c['property_id'] for c in checks if c['engine'] in ('cbmc', 'uksym+cbmc')],
                  'kind_free_text': 'CBMC 6.11 bounded model checking of /repo/src units compiled with goto-cc, --unwinding-assertions'}],
     'checks': checks, 'notes': T.NOTES, 'not_applicable': na}
json.dump(m, open(os.path.join(V, 'MANIFEST.json'), 'w'), indent=1)
print('checks:', [c['property_id'] for c in checks], 'not_applicable:', [n['property_id'] for n in na])
