#!/usr/bin/env python3
"""Extract the URI / string literals used by the repository's own tests (test/*.cpp) into a C header, for the
interpreter self-validation (same harness run natively and under uksym with concrete inputs; digests must agree)."""
import re, sys, glob, os
repo, out = sys.argv[1], sys.argv[2]
lits = []
for f in sorted(glob.glob(os.path.join(repo, 'test', '*.cpp'))):
    src = open(f, errors='replace').read()
    for m in re.finditer(r'(?<![A-Za-z_])L?"((?:[^"\\\n]|\\.)*)"', src):
        s = m.group(1)
        if len(s) > 100 or '\\' in s and re.search(r'\\[^\\"nrt0x]', s): continue
        try: v = bytes(s, 'latin-1').decode('unicode_escape')
        except Exception: continue
        if any(ord(c) > 126 or ord(c) == 0 for c in v): continue
        lits.append(v)
seen = set(); uniq = [x for x in lits if not (x in seen or seen.add(x))]
uniq = uniq[:int(sys.argv[3]) if len(sys.argv) > 3 else 400]
def cstr(s): return '"' + ''.join(c if 32 <= ord(c) < 127 and c not in '"\\?' else '\\%03o' % ord(c) for c in s) + '"'
with open(out, 'w') as o:
    o.write('/* generated from %s/test/*.cpp */\nstatic const char *const LITERALS[] = {\n' % repo)
    for s in uniq: o.write('  %s,\n' % cstr(s))
    o.write('};\n#define NLITERALS %d\n' % len(uniq))
print(len(uniq), 'literals')
