#!/bin/sh
# Sensitivity regression (maintenance, not a registered check): for every seeded change, make a scratch worktree of /repo with the
# patch applied, run the owning quick check against it (UK_REPO / VERIF_OUT keep /repo and /verif/evidence untouched) and expect exit 1.
# usage: tools/run_seeds.sh [parallelism]     output: one line per seed, summary at the end
par=${1:-3}; out=/tmp/seedrun_$$; mkdir -p $out; cd /verif
run_one(){ d=$1; name=$(basename $d); id=$(python3 -c "import json; print(json.load(open('$d/meta.json'))['breaks_property'])")
  wt=$out/wt_$name; git -C /repo worktree add -q --detach $wt HEAD && git -C $wt apply /verif/$d/patch.diff || { echo "$name: PATCH-FAILED"; return; }
  UK_REPO=$wt VERIF_OUT=$out/o_$name UK_NO_SELFCHECK=1 timeout 6000 ./check $id --tier quick > $out/$name.log 2>&1; rc=$?
  git -C /repo worktree remove --force $wt; rm -rf $out/o_$name
  if [ $rc -eq 1 ]; then echo "$name: CAUGHT ($(grep -m1 -A1 '^VIOLATION' $out/$name.log | tail -1 | cut -c1-110))"; else echo "$name: NOT-CAUGHT (exit $rc) see $out/$name.log"; fi; }
n=0
for d in seeded/C*/; do d=${d%/}; run_one $d & n=$((n+1)); if [ $((n % par)) -eq 0 ]; then wait; fi; done; wait
git -C /repo worktree prune
