#!/bin/sh
# confirm_seed.sh <seed dir> <property id> [tier]: (1) in a scratch worktree the patch compiles, the repository tests still pass and the
# demo fails with it / passes without it; (2) applied to /repo, ./check <id> reports a VIOLATION; /repo is restored afterwards.
set -u
seed=$1; id=$2; tier=${3:-quick}; wt=/tmp/seedconfirm_$$; log=$seed/confirm.log; : > $log
git -C /repo worktree add -q --detach $wt HEAD || exit 2
( cd $wt && cmake -G Ninja -S . -B _build -DURIPARSER_BUILD_DOCS=OFF -DCMAKE_BUILD_TYPE=RelWithDebInfo >/dev/null 2>&1 && cmake --build _build >/dev/null 2>&1
  gcc -w -fsanitize=address -I$wt/include -I$wt/_build -DURI_LIBRARY_BUILD $seed/demo.c $wt/src/*.c -o $wt/demo_orig 2>>$log; ASAN_OPTIONS=detect_leaks=0 $wt/demo_orig >/dev/null 2>&1; echo "demo on original: exit $?" >> $log
  git apply $seed/patch.diff && cmake --build _build >/dev/null 2>&1 && ctest --test-dir _build 2>&1 | grep "tests passed" >> $log
  gcc -w -fsanitize=address -I$wt/include -I$wt/_build -DURI_LIBRARY_BUILD $seed/demo.c $wt/src/*.c -o $wt/demo_seed 2>>$log; ASAN_OPTIONS=detect_leaks=0 $wt/demo_seed >/dev/null 2>&1; echo "demo with change: exit $?" >> $log )
git -C /repo worktree remove --force $wt
git -C /repo apply $seed/patch.diff || { echo "patch does not apply to /repo" >> $log; exit 2; }
( cd /verif && VERIF_OUT=/tmp/seedconfirm_out UK_NO_SELFCHECK=1 ./check $id --tier $tier > $seed/check_$id.log 2>&1; echo "check $id $tier with change: exit $?" >> $log )
git -C /repo checkout -- .
grep -E "^VIOLATION|^  [a-z]+:" $seed/check_$id.log | head -4 >> $log
cat $log
