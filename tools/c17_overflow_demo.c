/* native demonstration of the C17 size-arithmetic finding: one item whose key and value are 357913940 characters long */
#include <stdio.h>
#include <stdlib.h>
#include <string.h>
#include <uriparser/Uri.h>
int main(void){
  size_t n = 357913940u; char *s = malloc(n + 1); UriQueryListA it; int req = 12345, rc;
  if (!s) return 2; memset(s, 'a', n); s[n] = 0;
  it.key = s; it.value = s; it.next = 0;
  rc = uriComposeQueryCharsRequiredExA(&it, &req, URI_TRUE, URI_TRUE);
  printf("rc=%d charsRequired=%d\n", rc, req);
  return (rc == URI_SUCCESS && req < 0) ? 1 : 0;
}
