#!/bin/sh
# run tools/confirm_seed.sh for every seeded change (applies each patch to /repo, runs the owning quick check, restores /repo)
cd /verif
for d in seeded/C*/; do
  d=${d%/}; id=$(python3 -c "import json,sys; print(json.load(open('$d/meta.json'))['breaks_property'])")
  echo "=== $d ($id)"; ./tools/confirm_seed.sh /verif/$d $id quick | tail -6
done
git -C /repo status --short | grep -v _build | head
