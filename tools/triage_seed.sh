#!/bin/sh
# triage_seed.sh <dir with patch.diff + demo.c> <property id> [tier] [extra ./check args]: in ONE scratch worktree of /repo (never /repo itself):
# demo on the original, apply the patch, repository tests, demo with the change, then the owning check against that worktree
# (UK_REPO; evidence goes to a scratch VERIF_OUT). Writes <dir>/confirm.log and <dir>/check_<id>.log, prints a one-line verdict.
set -u
seed=$(readlink -f $1); id=$2; tier=${3:-quick}; shift; shift; [ $# -gt 0 ] && shift
name=$(basename $(dirname $seed))_$(basename $seed); wt=/tmp/tri_wt_$name; out=/tmp/tri_out_$name; log=$seed/confirm.log; : > $log
git -C /repo worktree add -q --detach $wt HEAD || exit 2
( cd $wt && cmake -G Ninja -S . -B _build -DURIPARSER_BUILD_DOCS=OFF -DCMAKE_BUILD_TYPE=RelWithDebInfo >/dev/null 2>&1 && cmake --build _build >/dev/null 2>&1
  gcc -w -fsanitize=address -I$wt/include -I$wt/_build -DURI_LIBRARY_BUILD $seed/demo.c $wt/src/*.c -o $wt/demo_orig 2>>$log; ASAN_OPTIONS=detect_leaks=0 timeout 120 $wt/demo_orig >/dev/null 2>&1; echo "demo on original: exit $?" >> $log
  git apply $seed/patch.diff || echo "PATCH DOES NOT APPLY" >> $log
  cmake --build _build 2>&1 | grep -i "warning" | head -3 >> $log; ctest --test-dir _build 2>&1 | grep "tests passed" >> $log
  gcc -w -fsanitize=address -I$wt/include -I$wt/_build -DURI_LIBRARY_BUILD $seed/demo.c $wt/src/*.c -o $wt/demo_seed 2>>$log; ASAN_OPTIONS=detect_leaks=0 timeout 120 $wt/demo_seed >/dev/null 2>&1; echo "demo with change: exit $?" >> $log
  rm -rf _build demo_orig demo_seed )
( cd /verif && UK_REPO=$wt VERIF_OUT=$out UK_NO_SELFCHECK=1 timeout 3000 ./check $id --tier $tier "$@" > $seed/check_$id.log 2>&1; echo "check $id $tier with change (UK_REPO=patched worktree): exit $?" >> $log )
git -C /repo worktree remove --force $wt; rm -rf $out
grep -E "^VIOLATION" -A2 $seed/check_$id.log | head -4 >> $log
echo "== $name: $(grep -c . $log) lines: $(tr '\n' '|' < $log | cut -c1-400)"
