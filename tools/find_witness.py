#!/usr/bin/env python3-vt
"""Maintenance tool (not used by registered checks): run one harness configuration and print the recorded input vector of the
first violation whose message / rendered texts contain the given substrings.  Used to fill known_findings.json witnesses.
usage: find_witness.py harness.c 'D1,D2,...' 'msg-substr' 'text-substr' """
import sys, os, json, time
V = os.path.dirname(os.path.dirname(os.path.abspath(__file__))); sys.path.insert(0, V)
from uksym import build, driver
h, defs, msub, tsub = sys.argv[1:5]
out = '/verif/build/witness'; os.makedirs(out, exist_ok=True)
if 'oracle_dfa.h' not in os.listdir(out):
    build.sh(['python3', os.path.join(V, 'oracle', 'abnf2dfa.py'), os.path.join(build.REPO, 'doc', 'rfc3986_grammar_only.txt'), os.path.join(out, 'oracle_dfa.h')])
final, w = build.build_module(out, os.path.join(V, 'harness', h), [d for d in defs.split(',') if d])
r = driver.run_parallel(final, w, {'deadline': time.time() + 600, 'max_violations': 2000}, 16)
for v in r['violations']:
    if msub in v['msg'] and tsub in json.dumps(v.get('texts')):
        print(json.dumps({'msg': v['msg'], 'texts': v['texts'], 'inputs': [x[2] for x in v['inputs']]})); break
else: print('no match among', len(r['violations']), 'violations', r['status'], r.get('errors'))
