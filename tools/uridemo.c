/* tiny native driver used to confirm findings by hand: uridemo resolve BASE REF | normalize URI | shorten SRC BASE [root] | equals A B */
#include <stdio.h>
#include <string.h>
#include <stdlib.h>
#include <uriparser/Uri.h>
static int P(UriUriA *u, const char *s){ const char *e; int r = uriParseSingleUriA(u, s, &e); if (r) printf("parse error %d at %ld in '%s'\n", r, (long)(e - s), s); return r; }
static void show(const char *l, UriUriA *u){ char buf[512]; int w; if (uriToStringA(buf, u, sizeof buf, &w)) strcpy(buf, "<tostring failed>"); printf("%s'%s'\n", l, buf); }
int main(int c, char **v){
  UriUriA a, b, t; int r;
  if (c >= 4 && !strcmp(v[1], "resolve")){ if (P(&b, v[2]) || P(&a, v[3])) return 2; r = uriAddBaseUriExA(&t, &a, &b, c > 4 ? URI_RESOLVE_IDENTICAL_SCHEME_COMPAT : URI_RESOLVE_STRICTLY); printf("rc=%d ", r); if (!r) show("", &t); }
  else if (c >= 3 && !strcmp(v[1], "normalize")){ if (P(&a, v[2])) return 2; r = uriNormalizeSyntaxExA(&a, c > 3 ? (unsigned)atoi(v[3]) : (unsigned)-1); printf("rc=%d ", r); show("", &a); }
  else if (c >= 4 && !strcmp(v[1], "shorten")){ if (P(&a, v[2]) || P(&b, v[3])) return 2; r = uriRemoveBaseUriA(&t, &a, &b, c > 4); printf("rc=%d ", r); if (!r) show("", &t); }
  else if (c >= 4 && !strcmp(v[1], "equals")){ if (P(&a, v[2]) || P(&b, v[3])) return 2; printf("equal=%d\n", uriEqualsUriA(&a, &b)); }
  else if (c >= 4 && !strcmp(v[1], "normres")){ UriUriA r1, r2, t1, t2; if (P(&b, v[2]) || P(&r1, v[3]) || P(&r2, v[3])) return 2;
    uriNormalizeSyntaxA(&r1); uriAddBaseUriA(&t1, &r1, &b); uriAddBaseUriA(&t2, &r2, &b); uriNormalizeSyntaxA(&t1); uriNormalizeSyntaxA(&t2);
    show("via normalised ref: ", &t1); show("via original ref:   ", &t2); printf("equal=%d\n", uriEqualsUriA(&t1, &t2)); }
  else return 2;
  return 0;
}
