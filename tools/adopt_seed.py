#!/usr/bin/env python3
"""adopt_seed.py <src dir> <seed name> <property> <needs> <first_result> <strengthening>: copy a triaged seed (tools/triage_seed.sh) into
seeded/<name>/ with meta.json, and append its row to seeded/README.md.  Refuses seeds whose confirm.log does not show: demo 0 on the
original, tests passing with the change, demo non-zero with the change, check exit 1."""
import sys, os, json, re, shutil
src, name, pid, needs, first, strength = sys.argv[1:7]
V = '/verif'
log = open(os.path.join(src, 'confirm.log')).read()
ok = 'demo on original: exit 0' in log and '100% tests passed' in log and re.search(r'demo with change: exit [1-9]', log) and re.search(r'check %s \w+ with change.*: exit 1' % pid, log)
if not ok: sys.exit('NOT CONFIRMED: ' + name + '\n' + log)
chk = [l for l in open(os.path.join(src, 'check_%s.log' % pid)) if not l.startswith('[')]
run = ''; what = ''
for i, l in enumerate(chk):
    if l.startswith('VIOLATION'):
        m = re.search(r'/([^/]+)_\d+\.json', l); run = m.group(1) if m else ''
        what = chk[i + 1].strip().split('   inputs=')[0] if i + 1 < len(chk) else ''
        break
d = os.path.join(V, 'seeded', name); os.makedirs(d, exist_ok=True)
for f in ('patch.diff', 'demo.c', 'notes.txt', 'confirm.log'): shutil.copy(os.path.join(src, f), os.path.join(d, f))
open(os.path.join(d, 'check_%s.log' % pid), 'w').writelines(chk[-60:])
tier = re.search(r'check %s (\w+) with change' % pid, log).group(1)
caught = "%s %s, run %s: '%s'" % (pid, tier, run, what)
meta = {'seed': name, 'breaks_property': pid, 'needs_to_manifest': needs,
        'written_by': 'independent sub-agent given only the property text and a scratch worktree of /repo (batch 11)',
        'confirmed': 'in a scratch worktree of /repo HEAD: patch applies, library builds, the repository tests still pass, demo.c exits 0 on the original and non-zero with the change (confirm.log, written by tools/triage_seed.sh)',
        'first_result': first, 'strengthening': strength, 'caught_by': caught,
        'ran': 'tools/triage_seed.sh <seed dir> %s  (= worktree build + ctest + demo before/after + UK_REPO=<worktree with the change> ./check %s --tier %s)' % (pid, pid, tier)}
json.dump(meta, open(os.path.join(d, 'meta.json'), 'w'), indent=1)
row = '| %s | %s | %s | %s |\n' % (name, first + ('; ' + strength if strength else ''), caught.replace('|', '/'), needs.replace('|', '/'))
readme = os.path.join(V, 'seeded', 'README.md'); t = open(readme).read()
if '| %s |' % name not in t: open(readme, 'a').write(row)
print('adopted', name, '->', caught[:150])
