/* native demonstration of the C14 finding: the k-th allocation of uriNormalizeSyntaxExMmA(PATH) fails on a borrowed URI */
#include <stdio.h>
#include <stdlib.h>
#include <uriparser/Uri.h>
static int live, count, failat;
static void *m_malloc(UriMemoryManager *m, size_t n){ (void)m; if (++count == failat) return 0; live++; return malloc(n); }
static void *m_calloc(UriMemoryManager *m, size_t a, size_t b){ (void)m; if (++count == failat) return 0; live++; return calloc(a, b); }
static void *m_realloc(UriMemoryManager *m, void *p, size_t n){ (void)m; return realloc(p, n); }
static void *m_reallocarray(UriMemoryManager *m, void *p, size_t a, size_t b){ (void)m; return realloc(p, a * b); }
static void m_free(UriMemoryManager *m, void *p){ (void)m; if (p){ live--; free(p); } }
int main(void){
  int k, bad = 0;
  for (k = 1; k <= 4; k++){
    UriMemoryManager mm = { m_malloc, m_calloc, m_realloc, m_reallocarray, m_free, 0 }; UriUriA u; const char *e; int rc;
    live = 0; count = 0; failat = 0;
    if (uriParseSingleUriExMmA(&u, "a/%41b/%42c", "a/%41b/%42c" + 11, &e, &mm)) return 2;
    count = 0; failat = k;
    rc = uriNormalizeSyntaxExMmA(&u, URI_NORMALIZE_PATH, &mm);
    failat = 0;
    uriFreeUriMembersMmA(&u, &mm);
    printf("fail allocation #%d: rc=%d, blocks still live after uriFreeUriMembers: %d\n", k, rc, live);
    if (live) bad = 1;
  }
  return bad;
}
