# Texts for MANIFEST.json (level claimed, trusted base, technique) per property.
UK = 'Trusted base: clang-14 C front end (IR is unoptimised + sroa), the uksym interpreter (validated each run by reachability witnesses and by native replay of every counterexample), z3 5.1; oracles in oracle/*.h. '
NOTES = ('Every claimed check is bounded symbolic execution of the real code (LLVM IR of /repo/src rebuilt on every run) with an SMT solver deciding each fork and assertion; '
         'within the stated bound the exploration is exhaustive over all values, outside it nothing is claimed. Exit 2 from ./check means the check is inconclusive/broken, never a pass.')
NA = {}
TEXT = {
 'C01': {'technique': 'bounded symbolic execution (uksym over LLVM IR + z3) against a DFA generated from the ABNF',
         'level': 'All texts up to the bound (every value of every character, both character types) are executed symbolically through uriParseSingleUriExMm; for each path z3 proves that acceptance equals acceptance by the minimal DFA of URI-reference built from the repository ABNF, and that the error code/position follow the rule. Exhaustive inside the bound, silent outside.',
         'note': UK + 'Bounds: see evidence.coverage.bounds. The IP-literal error-position clause is checked as "inside the same literal".'},
 'C02': {'technique': 'bounded symbolic execution (uksym + z3) against an Appendix-B component splitter and numeric IP evaluation',
         'level': 'For every accepted text up to the bound z3 proves every reported range, host kind, IPv4/IPv6 byte, segment list and flag equal to what the independent splitter (RFC 3986 Appendix B + authority split + DFA host classification) assigns.',
         'note': UK},
 'C03': {'technique': 'bounded symbolic execution with exact-size objects, watch ranges, read-only marking, allocation ledger and symbolic allocation failure',
         'level': 'Every load/store of the parser is checked against the exact [first, afterLast) object on every path for all character values (no slack byte), the input is read-only, the range is also placed inside a larger symbolic buffer, and on every failing path (syntax error or any subset of failing allocations) the ledger must be empty and repeated frees harmless.',
         'note': UK},
 'C04': {'technique': 'bounded symbolic execution of parse -> recompose -> parse/equals, character-wise symbolic equality',
         'level': 'For every accepted text up to the bound z3 proves the recomposed text equals the input character for character (IPv6 literals: eight 4-digit lowercase groups encoding the oracle value), that it parses again to an equal URI, and the same after uriMakeOwner.',
         'note': UK},
 'C05': {'technique': 'bounded symbolic execution with a symbolic 32-bit maxChars and a symbolic store limit',
         'level': 'maxChars is one unconstrained symbolic int per URI; every store into the destination is proved to lie below maxChars (solver query per store), and return code, charsWritten, terminator and emptiness are proved for every capacity interval of every URI shape explored.',
         'note': UK},
}
