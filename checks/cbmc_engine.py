# E2: CBMC runs (filled in with the C15/C16/C17 harnesses)
def run(bdir, run, kf_defines, jobs):
    raise NotImplementedError
def replay(bdir, run, v):
    return False, 0, ''
