# Per-property check specifications: which harness runs decide the property at which bounds.
def R(name, harness, defines, bounds, must_cover=(), budget_s=600, **kw):
    d = {'name': name, 'harness': harness, 'defines': list(defines), 'bounds': bounds, 'must_cover': list(must_cover), 'budget_s': budget_s}
    d.update(kw); return d

COMMON_ASSUME = [
    'memory manager: harness ledger allocator (mm.h), allocation never fails unless the run is marked FAILING',
    'libc leaves strlen/wcslen/strncmp/wcsncmp/memcmp executed from harness/uk_libc.c; memcpy/memset are executor built-ins with C semantics',
    'x86-64 LP64 data layout, wchar_t = 32 bit, clang-14 front end; IR is unoptimised (+sroa)',
    'pointers are concrete along a path; relational comparison of pointers into different objects is evaluated on deterministic fake addresses and listed in ub_notes',
]

def parse_runs(pid, props, nq, nt, wq, wt, mq, mt, extra=()):
    P = ['P_' + p for p in props]
    def mk(n, w, m, budget):
        rs = [R('parseA', 'h_parse.c', P + ['NMAX=%d' % n], 'A: all char strings of length 0..%d' % n, ['accepted', 'rejected-incomplete', 'rejected-at-deadpos', 'rejected-inside-ip-literal'], budget)]
        if w is not None: rs.append(R('parseW', 'h_parse.c', P + ['WIDE', 'NMAX=%d' % w], 'W: all wchar_t strings (32-bit values) of length 0..%d' % w, ['accepted'], budget))
        if m is not None: rs.append(R('parseIP', 'h_parse.c', P + ['PREFIX="//["', 'NMAX=%d' % m], 'A: "//[" followed by every char string of length 0..%d' % m, ['host-ip6', 'rejected-inside-ip-literal'] + (['host-ipfuture'] if m >= 5 else []), budget))
        return rs
    return {'quick': mk(nq, wq, mq, 400) + list(extra), 'thorough': mk(nt, wt, mt, 2400) + list(extra)}

SPECS = {}
SPECS['C01'] = {'runs': parse_runs('C01', ['C01'], 6, 7, 4, 5, 6, 7), 'assumptions': COMMON_ASSUME + ['oracle G: minimal DFA generated on every run from doc/rfc3986_grammar_only.txt (ABNF string literals case-insensitive per RFC 5234)'],
    'bounds': {'quick': 'N<=6 (char), N<=4 (wchar_t), IP-literal tail M<=6', 'thorough': 'N<=7 (char), N<=5 (wchar_t), M<=7'},
    'outside': 'longer texts; entry points other than uriParseSingleUriExMm are covered by the h_entry run'}
SPECS['C02'] = {'runs': parse_runs('C02', ['C02'], 6, 7, 4, 5, 6, 7), 'assumptions': COMMON_ASSUME + ['oracle S: RFC 3986 Appendix B splitter + numeric IPv4/IPv6 evaluation (oracle/oracle_split.h)'],
    'bounds': {'quick': 'N<=6 (char), N<=4 (wchar_t), IP-literal tail M<=6', 'thorough': 'N<=7, W N<=5, M<=7'}, 'outside': 'longer texts'}
SPECS['C03'] = {'runs': parse_runs('C03', ['C03'], 6, 7, 4, 5, 6, 7, extra=[
        R('parseMID', 'h_parse.c', ['P_C03', 'P_C02', 'MID', 'NMAX=5'], 'range of length 0..5 in the middle of a buffer with 2 symbolic characters on each side', ['accepted'], 600),
        R('parseFAIL', 'h_parse.c', ['P_C03', 'FAILING', 'NMAX=5'], 'every subset of failing allocations, texts of length 0..5', ['alloc-failure-injected'], 600)]),
    'assumptions': COMMON_ASSUME, 'bounds': {'quick': 'N<=6 / W N<=4 / M<=6; mid-buffer and failure injection N<=5', 'thorough': 'N<=7 / W 5 / M<=7'}, 'outside': 'longer texts'}
SPECS['C04'] = {'runs': parse_runs('C04', ['C04'], 5, 6, 3, 4, 5, 6), 'assumptions': COMMON_ASSUME, 'bounds': {'quick': 'N<=5, W N<=3, M<=5', 'thorough': 'N<=6, W 4, M<=6'}, 'outside': 'longer texts'}
SPECS['C05'] = {'runs': parse_runs('C05', ['C05'], 4, 5, 3, 4, 4, 5), 'assumptions': COMMON_ASSUME + ['maxChars: one unconstrained symbolic 32-bit int per URI; charsWritten NULL or not is a symbolic choice'],
    'bounds': {'quick': 'parsed URIs N<=4 (W 3, M<=4) x every int maxChars', 'thorough': 'N<=5 (W 4, M 5)'}, 'outside': 'ranges >= 2^31 characters'}
