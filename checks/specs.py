# Per-property check specifications: which harness runs decide the property at which bounds.
def R(name, harness, defines, bounds, must_cover=(), budget_s=600, **kw):
    d = {'name': name, 'harness': harness, 'defines': list(defines), 'bounds': bounds, 'must_cover': list(must_cover), 'budget_s': budget_s}
    d.update(kw); return d

COMMON_ASSUME = [
    'memory manager: harness ledger allocator (mm.h), allocation never fails unless the run is marked FAILING',
    'libc leaves strlen/wcslen/strncmp/wcsncmp/memcmp executed from harness/uk_libc.c; memcpy/memset are executor built-ins with C semantics',
    'x86-64 LP64 data layout, wchar_t = 32 bit, clang-14 front end; IR is unoptimised (+sroa)',
    'pointers are concrete along a path; relational comparison of pointers into different objects is evaluated on deterministic fake addresses and listed in ub_notes',
]

def parse_runs(pid, props, nq, nt, wq, wt, mq, mt, extra=(), ip6=False):
    P = ['P_' + p for p in props]
    def mk(n, w, m, budget):
        rs = [R('parseA', 'h_parse.c', P + ['NMAX=%d' % n], 'A: all char strings of length 0..%d' % n, ['accepted', 'rejected-incomplete', 'rejected-at-deadpos', 'rejected-inside-ip-literal'], budget)]
        if w is not None: rs.append(R('parseW', 'h_parse.c', P + ['WIDE', 'NMAX=%d' % w], 'W: all wchar_t strings (32-bit values) of length 0..%d' % w, ['accepted'], budget))
        if m is not None: rs.append(R('parseIP', 'h_parse.c', P + ['PREFIX="//["', 'NMAX=%d' % m], 'A: "//[" followed by every char string of length 0..%d' % m, ['host-ip6', 'rejected-inside-ip-literal'] + (['host-ipfuture'] if m >= 5 else []), budget))
        if ip6:
            rs.append(R('entry-points', 'h_entry.c', ['NMAX=%d' % (4 if budget < 1000 else 5)], 'uriParseUriEx, uriParseUri, uriParseSingleUri, uriParseSingleUriEx(NULL afterLast) against uriParseSingleUriExMm: all NUL-terminated char strings of length 0..%d with the first NUL at any position' % (4 if budget < 1000 else 5), ['uriParseUriEx', 'uriParseUri', 'uriParseSingleUri', 'uriParseSingleUriEx-NULL-afterLast', 'accepted', 'rejected'], budget, all_props=True))
            rs.append(R('parseIP6gen', 'h_parse.c', P + ['IP6GEN'] + (['IP6_WIDE_HEX'] if budget > 1000 else []), 'A: "//[" + shape-bounded IPv6 literal + "]": 0..8 one-digit groups before/after an optional "::", one group of 1..5 digits (thorough: hex digits of both cases), optional IPv4 tail of 3..5 octets with one octet of 1..4 digits; valid and invalid layouts', ['host-ip6', 'rejected-inside-ip-literal'], budget * 2))
        return rs
    return {'quick': mk(nq, wq, mq, 400) + list(extra), 'thorough': mk(nt, wt, mt, 2400) + list(extra)}

SPECS = {}
SPECS['C01'] = {'runs': parse_runs('C01', ['C01'], 7, 9, 5, 6, 7, 8, ip6=True), 'assumptions': COMMON_ASSUME + ['oracle G: minimal DFA generated on every run from doc/rfc3986_grammar_only.txt (ABNF string literals case-insensitive per RFC 5234)'],
    'bounds': {'quick': 'N<=7 (char), N<=5 (wchar_t), IP-literal tail M<=7; shape-bounded IPv6 literals, IPv4 hosts, every authority shape; all five entry points N<=4', 'thorough': 'N<=9 (char), N<=6 (wchar_t), M<=8; plus full-class shape-bounded texts'},
    'outside': 'longer texts; entry points other than uriParseSingleUriExMm are covered by the h_entry run'}
SPECS['C02'] = {'runs': parse_runs('C02', ['C02'], 7, 9, 5, 6, 7, 8, ip6=True), 'assumptions': COMMON_ASSUME + ['oracle S: RFC 3986 Appendix B splitter + numeric IPv4/IPv6 evaluation (oracle/oracle_split.h)'],
    'bounds': {'quick': 'N<=7 (char), N<=5 (wchar_t), IP-literal tail M<=7; shape-bounded IPv6 / IPv4 / authority texts', 'thorough': 'N<=9, W N<=6, M<=8'}, 'outside': 'longer texts'}
SPECS['C03'] = {'runs': parse_runs('C03', ['C03'], 7, 9, 5, 6, 7, 8, extra=[
        R('parseMID', 'h_parse.c', ['P_C03', 'P_C02', 'MID', 'NMAX=5'], 'range of length 0..5 in the middle of a buffer with 2 symbolic characters on each side', ['accepted'], 600),
        R('parseFAIL', 'h_parse.c', ['P_C03', 'FAILING', 'NMAX=5'], 'every subset of failing allocations, texts of length 0..5', ['alloc-failure-injected'], 600),
        R('entry-points', 'h_entry.c', ['NMAX=4'], 'no residue after a failed parse through uriParseUriEx / uriParseUri / uriParseSingleUri / uriParseSingleUriEx(NULL): all NUL-terminated char strings of length 0..4', ['rejected', 'uriParseUriEx', 'uriParseUri'], 600)]),
    'assumptions': COMMON_ASSUME, 'bounds': {'quick': 'N<=7 / W N<=5 / M<=7; mid-buffer and failure injection N<=5', 'thorough': 'N<=9 / W 6 / M<=8'}, 'outside': 'longer texts'}
HOSTS_RUN = lambda P, b: R('parse-hosts', 'h_parse.c', ['P_' + p for p in P] + ['GENTEXT=(G_SCHEME_OPT|G_AUTH_REQ|G_USERINFO|G_PORT|G_HOSTKINDS|G_EMPTYHOST)', 'GENK=1', 'GENL=1'], '[scheme] // [userinfo@] host [:port] [/seg]: every host kind incl. IPv4 with 1..3 digit octets and full-form IPv6, characters over [a-z] / digits', ['host-ip4', 'host-ip6', 'host-ipfuture', 'host-regname'], b)
GENTEXT_RUN = lambda P, b: R('parse-shapes', 'h_parse.c', ['P_' + p for p in P] + ['GEN_WIDE_CHARS', 'GENTEXT=(G_SCHEME_OPT|G_AUTH|G_USERINFO|G_PORT|G_EMPTYHOST|G_QUERY|G_FRAG|G_PCT)', 'GENK=1', 'GENL=1'], 'shape-bounded texts with every optional component, every character over its full RFC 3986 class, one percent triplet (up to ~14 characters)', ['accepted', 'host-regname', 'has-scheme'], b)
SPECS['C04'] = {'runs': parse_runs('C04', ['C04'], 6, 7, 4, 5, 6, 7, ip6=True), 'assumptions': COMMON_ASSUME, 'bounds': {'quick': 'N<=6, W N<=4, M<=6; shape-bounded IPv6 / IPv4 / authority texts', 'thorough': 'N<=7, W 5, M<=7'}, 'outside': 'longer texts'}
def HOSTS_RUN_W(P, b):
    r = HOSTS_RUN(P, b); r = dict(r); r['name'] = 'parse-hostsW'; r['defines'] = list(r['defines']) + ['WIDE']; r['bounds'] = 'wchar_t variant of parse-hosts: ' + r['bounds']
    return r
IP4_RUN = lambda P, b: R('parse-ip4', 'h_parse.c', ['P_' + p for p in P] + ['GEN_IP4_FULL', 'GENTEXT=(G_AUTH_REQ|G_PORT|G_HOSTKINDS)', 'GENK=0', 'GENL=1'], '//N.0.0.M[:port] with N and M of 1..3 fully symbolic digits (IPv4 exactly when both are dec-octets, else reg-name), plus the other host kinds', ['host-ip4', 'host-regname'], b)
for _p in ('C01', 'C02', 'C04'):
    SPECS[_p]['runs']['quick'].append(IP4_RUN([_p], 600)); SPECS[_p]['runs']['thorough'].append(IP4_RUN([_p], 1200))
    SPECS[_p]['runs']['quick'].append(HOSTS_RUN([_p], 600)); SPECS[_p]['runs']['thorough'].append(HOSTS_RUN([_p], 1200)); SPECS[_p]['runs']['thorough'].append(GENTEXT_RUN([_p], 3000))
    SPECS[_p]['runs']['quick'].append(HOSTS_RUN_W([_p], 600)); SPECS[_p]['runs']['thorough'].append(HOSTS_RUN_W([_p], 1200))
SPECS['C05'] = {'runs': parse_runs('C05', ['C05'], 4, 5, 3, 4, 4, 5), 'assumptions': COMMON_ASSUME + ['maxChars: one unconstrained symbolic 32-bit int per URI; charsWritten NULL or not is a symbolic choice'],
    'bounds': {'quick': 'parsed URIs N<=4 (W 3, M<=4), every authority shape, small resolved and normalised URIs x every int maxChars', 'thorough': 'N<=5 (W 4, M 5), mixed resolved, normalised with all host kinds, created references'}, 'outside': 'ranges >= 2^31 characters'}

# ---------------------------------------------------------------- URI-level operations (shape-bounded texts, see harness/gen.h)
KFN = []   # known-finding defines are added by ./check from known_findings.json
RES_PATH = ['BFLAGS=(G_SCHEME_REQ|G_AUTH)', 'RFLAGS=0']
RES_CB = ['KB=0', 'KR=1', 'SEGL=1', 'BFLAGS=(G_SCHEME_REQ|G_AUTH_REQ|G_USERINFO|G_PORT|G_HOSTKINDS)', 'RFLAGS=(G_SCHEME_OPT|G_QUERY)']
RES_CR = ['KB=1', 'KR=0', 'SEGL=1', 'BFLAGS=(G_SCHEME_REQ|G_AUTH|G_QUERY)', 'RFLAGS=(G_SCHEME_OPT|G_AUTH_REQ|G_USERINFO|G_PORT|G_HOSTKINDS|G_FRAG)']
RES_CM = ['KB=1', 'KR=1', 'SEGL=1', 'BFLAGS=(G_SCHEME_REQ|G_AUTH|G_QUERY)', 'RFLAGS=(G_SCHEME_OPT|G_AUTH|G_QUERY|G_FRAG)']
RES_REL = ['KB=1', 'KR=1', 'SEGL=1', 'BFLAGS=(G_SCHEME_OPT|G_AUTH)', 'RFLAGS=(G_SCHEME_OPT)']
RESCOV = ['ref-absolute-path', 'ref-merged', 'ref-empty-path']
def resolve_runs(P, tier):
    P = ['P_' + p for p in P]
    rs = [R('resolve-paths', 'h_resolve.c', P + ['KB=2', 'KR=2', 'SEGL=2'] + RES_PATH, 'base "x:" [//host] + <=2 segments, reference = path of <=2 segments (optional leading /), segments <=2 chars over [a-z.]; strict and compat mode', RESCOV + ['slash-dot-guard-expected'], 400),
          R('resolve-paths-k4', 'h_resolve.c', P + ['KB=1', 'KR=4', 'SEGL=1'] + RES_PATH, 'base <=1 segment, reference of <=4 one-character segments (reaches .///x)', RESCOV, 600),
          R('resolve-paths-k3', 'h_resolve.c', P + ['KB=1', 'KR=3', 'SEGL=1'] + RES_PATH, 'base <=1 segment, reference of <=3 one-character segments (reaches /.//x and x/..//y)', RESCOV + ['slash-dot-guard-expected'], 300),
          R('resolve-base-authority', 'h_resolve.c', P + RES_CB, 'base with every authority shape (user info none/empty/1 char, host reg-name/IPv4/IPv6/IPvFuture, port none/empty/1 digit), reference [scheme] path<=1 seg [?query]', RESCOV + ['ref-has-scheme'], 400),
          R('resolve-mixed', 'h_resolve.c', P + RES_CM, 'base scheme [//host] path<=1 [?q]; reference [scheme] [//host] path<=1 [?q] [#f]; 1-char segments', RESCOV + ['ref-has-scheme', 'ref-has-authority'], 600),
          R('resolve-schemes', 'h_resolve.c', P + ['KB=0', 'KR=1', 'SEGL=1', 'BFLAGS=(G_SCHEME_REQ|G_SCHEME2|G_AUTH)', 'RFLAGS=(G_SCHEME_OPT|G_SCHEME2)'], 'schemes of one or two symbolic letters on both sides (equal, prefix of each other, different), both option values', ['ref-has-scheme', 'ref-merged'], 300),
          R('resolve-len2', 'h_resolve.c', P + ['KB=0', 'KR=1', 'SEGL=1', 'GEN_COMP_L=2', 'BFLAGS=(G_SCHEME_REQ|G_SCHEME2|G_AUTH_REQ|G_USERINFO|G_PORT)', 'RFLAGS=(G_QUERY|G_FRAG)'], 'base: scheme of 1..2 letters, authority with user info / port of 0..2 characters; reference: <=1 segment [?query of <=2] [#fragment of <=2]', RESCOV, 600),
          R('resolve-ref-len2', 'h_resolve.c', P + ['KB=0', 'KR=0', 'SEGL=1', 'GEN_COMP_L=2', 'BFLAGS=(G_SCHEME_REQ|G_AUTH|G_QUERY)', 'RFLAGS=(G_SCHEME_OPT|G_SCHEME2|G_AUTH_REQ|G_USERINFO|G_PORT|G_QUERY)'], 'reference with scheme of 0..2 letters and an authority with user info / port / query of 0..2 characters; base scheme [//host] [?query of <=2]', ['ref-has-authority', 'ref-has-scheme'], 600),
          R('resolve-relative-base', 'h_resolve.c', P + RES_REL, 'base with or without scheme (error code for relative base)', ['relative-base'], 300)]
    if tier == 'thorough':
        rs += [R('resolve-paths-3', 'h_resolve.c', P + ['KB=2', 'KR=3', 'SEGL=2'] + RES_PATH, 'as resolve-paths with references of <=3 segments', RESCOV, 1500),
               R('resolve-ref-authority', 'h_resolve.c', P + RES_CR, 'reference with every authority shape, base scheme [//host] path<=1 [?q]', ['ref-has-authority', 'ref-has-scheme'], 2400)]
    return rs
SPECS['C06'] = {'runs': {'quick': resolve_runs(['C06'], 'quick'), 'thorough': resolve_runs(['C06'], 'thorough')},
    'assumptions': COMMON_ASSUME + ['oracle R: RFC 3986 5.2.2/5.2.3 and segment-wise dot removal on strings (oracle/oracle_resolve.h); filler characters symbolic over [a-z], path characters over [a-z.]; IPv6 hosts in full lowercase form'],
    'bounds': {'quick': 'base<=2 x ref<=2 segments of <=2 chars (paths); all authority shapes on the base with 1-segment refs; mixed optional components with 1-char segments', 'thorough': 'plus ref<=3 segments and all authority shapes on the reference'},
    'outside': 'longer paths, other characters than the class representatives, products of all optional components at once'}

NORM_CASE = ['KN=1', 'SEGL=1', 'GEN_ALPHA_CASE', 'NFLAGS=(G_SCHEME_OPT|G_AUTH|G_HOSTKINDS)']
NORM_PCT_Q = ['KN=1', 'SEGL=1', 'NFLAGS=(G_AUTH|G_QUERY|G_PCT)', 'MASKS=0,2,4,8,16,63']
NORM_PCT_T = ['KN=1', 'SEGL=1', 'NFLAGS=(G_AUTH|G_USERINFO|G_QUERY|G_FRAG|G_PCT)']
NORM_DOTS = ['KN=3', 'SEGL=2', 'GEN_PATH_COLON', 'NFLAGS=(G_SCHEME_OPT|G_AUTH)', 'MASKS=0,8,63']
def norm_runs(P, tier, full=True):
    cov0 = 'normal-form-compared' if 'C08' in P else 'relative-path-ref' if 'C09' in P else 'owned-in-place'
    P = ['P_' + p for p in P]
    rs = [R('norm-dots', 'h_norm.c', P + NORM_DOTS, '[scheme] [//host] path of <=3 segments of <=2 chars over [a-z.:]; masks {0, PATH, all, required}; borrowed and owned', [cov0, 'owned-in-place', 'borrowed-copying'], 600)]
    if full:
        rs += [R('norm-case', 'h_norm.c', P + NORM_CASE, '[scheme] [//authority with every host kind] path<=1: letters of scheme and host symbolic over both cases; masks {0, each single bit, all, required}', [cov0, 'host-ip4', 'host-ip6', 'host-ipfuture', 'host-regname'], 400),
               R('norm-pct', 'h_norm.c', P + (NORM_PCT_T if tier == 'thorough' else NORM_PCT_Q), 'one percent-encoded triplet with symbolic hex digits at any position of host / path / query (thorough: also user info, fragment)', [cov0], 2400 if tier == 'thorough' else 600)]
    if full:
        rs.append(R('norm-host-pct-case', 'h_norm.c', P + ['KN=0', 'SEGL=1', 'GEN_ALPHA_CASE', 'NFLAGS=(G_AUTH_REQ|G_PCT)', 'MASKS=0,4,63'], 'reg-name hosts of 1..2 tokens, each a letter of either case or a percent triplet with symbolic hex digits (case folding next to percent-encodings)', [cov0], 600))
    if full:
        rs.append(R('norm-pct-adjacent', 'h_norm.c', P + ['KN=1', 'SEGL=2', 'GEN_PCT_MAX=2', 'NFLAGS=(G_PCT)', 'MASKS=0,8,63'], 'one path segment of 1..2 tokens, each a letter or a percent triplet with symbolic hex digits (two adjacent triplets)', [cov0], 900))
    if tier == 'thorough':
        rs.append(R('norm-fullmask', 'h_norm.c', P + ['KN=1', 'SEGL=1', 'FULLMASK', 'GEN_ALPHA_CASE', 'NFLAGS=(G_SCHEME_OPT|G_AUTH|G_QUERY)'], 'all 64 masks (symbolic mask byte) on [scheme] [//host] path<=1 [?q]', [cov0], 2400))
    return rs
SPECS['C08'] = {'runs': {'quick': norm_runs(['C08'], 'quick'), 'thorough': norm_runs(['C08'], 'thorough')},
    'assumptions': COMMON_ASSUME + ['oracle N: RFC 3986 6.2.2 normal form on strings (oracle/oracle_norm.h); where plain dot removal would need a guard prefix (classes ON_CLS_*) C08 pins no text and C07/C09 apply'],
    'bounds': {'quick': 'see runs: <=3 segments of <=2 chars; one percent triplet; masks {0, single bits, all, required}', 'thorough': 'plus all 64 masks on small shapes, triplets in every component'}, 'outside': 'longer inputs; several triplets at once'}
NORM_REL4 = ['KN=4', 'SEGL=2', 'NFLAGS=0', 'MASKS=8']
SPECS['C09'] = {'runs': {'quick': [R('normres-deep-base', 'h_normres.c', ['BASE_FIXED="x://h/a/b/c/d"', 'KB=4', 'KR=4', 'SEGL=2', 'RFLAGS=0'], 'constant base x://h/a/b/c/d (four levels), reference = relative or absolute path of <=4 segments of <=2 chars over [a-z.] (reaches ../../../g)', ['ref-relative-path', 'ref-absolute-path'], 600),
                                   R('normres-rel4', 'h_normres.c', ['KB=1', 'KR=4', 'SEGL=2', 'BFLAGS=(G_SCHEME_REQ|G_AUTH_REQ)', 'RFLAGS=0'], 'base x://h[/s], reference = relative or absolute path of <=4 segments of <=2 chars over [a-z.]', ['ref-relative-path', 'ref-absolute-path'], 900), R('norm-rel4', 'h_norm.c', ['P_C09'] + NORM_REL4, 'path-only references of <=4 segments of <=2 chars over [a-z.], PATH mask', ['relative-path-ref'], 900), R('normres', 'h_normres.c', ['KB=2', 'KR=2', 'SEGL=2', 'GEN_PATH_COLON'], 'base "x:" [//host] <=2 segments; reference [scheme] [//host] <=2 segments, <=2 chars over [a-z.:]', ['ref-absolute', 'ref-network-path', 'ref-absolute-path', 'ref-relative-path'], 600)] + norm_runs(['C09'], 'quick', full=False),
                         'thorough': [R('normres', 'h_normres.c', ['KB=2', 'KR=3', 'SEGL=2', 'GEN_PATH_COLON'], 'as quick with references of <=3 segments', ['ref-relative-path'], 2400)] + norm_runs(['C09'], 'thorough', full=False)},
    'assumptions': COMMON_ASSUME + ['references contain no percent-encoding (so no percent-encoded dot segment), as the property states'],
    'bounds': {'quick': 'base<=2, reference<=2 segments of <=2 chars', 'thorough': 'reference<=3 segments'}, 'outside': 'longer paths'}
SHORT = ['KS=2', 'KB=2', 'SEGL=1', 'SFLAGS=(G_SCHEME_REQ|G_AUTH)', 'BFLAGS=(G_SCHEME_REQ|G_AUTH)']
def shorten_runs(P, tier):
    P = ['P_' + p for p in P]
    rs = [R('shorten-paths', 'h_shorten.c', P + SHORT, 'S and B: scheme [//host] <=2 segments of <=1 char over [a-z.]; both modes', ['schemes-differ', 'same-authority-domain-root', 'same-authority-relative'], 600),
          R('shorten-authority', 'h_shorten.c', P + ['KS=1', 'KB=1', 'SEGL=1', 'SFLAGS=(G_SCHEME_REQ|G_AUTH_REQ|G_USERINFO|G_PORT)', 'BFLAGS=(G_SCHEME_REQ|G_AUTH_REQ|G_USERINFO|G_PORT)'], 'S and B with user info none/empty/1 char and port none/empty/1 digit, <=1 segment', ['same-authority-relative'], 600),
          R('shorten-colon', 'h_shorten.c', P + ['KS=2', 'KB=2', 'SEGL=2', 'GEN_PATH_COLON', 'SFLAGS=(G_SCHEME_REQ|G_AUTH_REQ)', 'BFLAGS=(G_SCHEME_REQ|G_AUTH_REQ)'], 'S and B: scheme //host <=2 segments of <=2 chars over [a-z.:]; both modes', ['same-authority-relative'], 600),
          R('shorten-hostkinds', 'h_shorten.c', P + (['KS=1', 'KB=1'] if tier == 'thorough' else ['KS=0', 'KB=0']) + ['SEGL=1', 'SFLAGS=(G_SCHEME_REQ|G_AUTH_REQ|G_HOSTKINDS)', 'BFLAGS=(G_SCHEME_REQ|G_AUTH_REQ|G_HOSTKINDS)'], 'S and B with every host kind (reg-name, IPv4, IPv6, IPvFuture; symbolic digits), no path (thorough: <=1 segment)', ['same-authority-relative', 'schemes-differ'], 2400 if tier == 'thorough' else 600),
          R('shorten-query', 'h_shorten.c', P + ['KS=1', 'KB=1', 'SEGL=1', 'SFLAGS=(G_SCHEME_REQ|G_AUTH|G_QUERY|G_FRAG)', 'BFLAGS=(G_SCHEME_REQ|G_AUTH|G_QUERY)'], 'S: scheme [//host] <=1 segment [?q] [#f], B: scheme [//host] <=1 segment [?q] (equal and different queries, empty paths); both modes', ['same-authority-relative', 'schemes-differ'], 600),
          R('shorten-authority-len2', 'h_shorten.c', P + ['KS=0', 'KB=0', 'SEGL=1', 'GEN_COMP_L=2', 'SFLAGS=(G_SCHEME_REQ|G_AUTH_REQ|G_USERINFO|G_PORT)', 'BFLAGS=(G_SCHEME_REQ|G_AUTH_REQ|G_USERINFO|G_PORT)'], 'S and B with user info none/empty/1..2 chars, reg-name of 1..2 chars, port none/empty/1..2 digits (one a prefix of the other), no path', ['same-authority-relative'], 600),
          R('shorten-hostkinds-port', 'h_shorten.c', P + ['KS=0', 'KB=0', 'SEGL=1', 'SFLAGS=(G_SCHEME_REQ|G_AUTH_REQ|G_HOSTKINDS|G_PORT)', 'BFLAGS=(G_SCHEME_REQ|G_AUTH_REQ|G_HOSTKINDS)'], 'S with every host kind and a port absent / empty / one digit, B with every host kind and no port: same host of every kind, only one side has a port', ['same-authority-relative'], 900),
          R('shorten-nonabsolute', 'h_shorten.c', P + ['KS=1', 'KB=1', 'SEGL=1', 'SFLAGS=(G_SCHEME_OPT|G_AUTH)', 'BFLAGS=(G_SCHEME_OPT|G_AUTH)'], 'S or B without scheme (error codes)', ['non-absolute-rejected'], 300)]
    if tier == 'thorough':
        rs.append(R('shorten-paths-3', 'h_shorten.c', P + ['KS=3', 'KB=3', 'SEGL=1', 'GEN_PATH_COLON', 'SFLAGS=(G_SCHEME_REQ|G_AUTH|G_QUERY)', 'BFLAGS=(G_SCHEME_REQ|G_AUTH|G_QUERY)'], '<=3 segments over [a-z.:], optional queries', ['same-authority-relative'], 7200))
    return rs
SPECS['C10'] = {'runs': {'quick': shorten_runs(['C10'], 'quick'), 'thorough': shorten_runs(['C10'], 'thorough')},
    'assumptions': COMMON_ASSUME + ['inverse check uses the real resolver (uriAddBaseUriExMm, decided by C06) and oracle R for dot-segment normalisation'],
    'bounds': {'quick': '<=2 segments of 1 char each side', 'thorough': '<=3 segments, queries'}, 'outside': 'longer paths'}
SPECS['C11'] = {'runs': {'quick': [R('equals', 'h_equals.c', ['KE=1', 'SEGL=1', 'EFLAGS=(G_SCHEME_OPT|G_AUTH|G_QUERY|G_FRAG)'], 'two texts: [scheme] [//host] path<=1 segment [?q] [#f], 1-char pieces', ['equal', 'different'], 600),
                                   R('equals-hosts-q', 'h_equals.c', ['KE=0', 'SEGL=1', 'EFLAGS=(G_AUTH_REQ|G_HOSTKINDS)'], 'two authorities with every host kind (reg-name, IPv4, IPv6, IPvFuture; symbolic digits)', ['equal', 'different'], 600),
                                   R('equals-paths', 'h_equals.c', ['KE=2', 'SEGL=1', 'EFLAGS=(G_SCHEME_OPT|G_AUTH)'], 'two texts [scheme] [//host] path of <=2 one-character segments (segment lists of different lengths, prefixes of each other)', ['equal', 'different'], 600),
                                   R('equals-hostkind-lookalike', 'h_equals.c', ['KE=0', 'SEGL=1', 'GEN_REGNAME_FUTURELIKE', 'EFLAGS=(G_AUTH_REQ|G_HOSTKINDS)'], 'two authorities with every host kind plus a reg-name spelled like the inside of an IPvFuture literal (v1.x against [v1.x])', ['equal', 'different'], 600),
                                   R('equals-shared-buffer', 'h_equals.c', ['KE=1', 'SEGL=1', 'GEN_COMP_L=1', 'SHARED_BUFFER', 'EFLAGS=(G_SCHEME_OPT|G_AUTH|G_USERINFO|G_PORT|G_QUERY|G_FRAG)'], 'second URI parsed from a prefix or a suffix of the first URI\'s own buffer (component ranges that start or end at the same address)', ['equal', 'different'], 600),
                                   R('equals-authority-len2', 'h_equals.c', ['KE=0', 'SEGL=1', 'GEN_COMP_L=2', 'EFLAGS=(G_AUTH_REQ|G_USERINFO|G_PORT)'], 'two authorities: user info absent / empty / 1..2 characters, reg-name of 1..2 characters, port absent / empty / 1..2 digits', ['equal', 'different'], 600),
                                   R('equals-tail-len2', 'h_equals.c', ['KE=0', 'SEGL=1', 'GEN_COMP_L=2', 'EFLAGS=(G_SCHEME_OPT|G_SCHEME2|G_QUERY|G_FRAG)'], 'two texts [scheme of 1..2 letters] [?query of <=2] [#fragment of <=2]', ['equal', 'different'], 600),
                                   R('equals-produced', 'h_normres.c', ['KB=1', 'KR=2', 'SEGL=2'], 'pairs of URIs produced by resolve/normalise from the same reference: equal exactly when the recomposed texts are identical', ['ref-relative-path'], 600, kf_of='C09')],
                         'thorough': [R('equals', 'h_equals.c', ['KE=1', 'SEGL=1', 'EFLAGS=(G_SCHEME_OPT|G_AUTH|G_QUERY|G_FRAG)'], 'as quick', ['equal', 'different'], 900),
                                      R('equals-paths', 'h_equals.c', ['KE=3', 'SEGL=1', 'EFLAGS=(G_SCHEME_OPT|G_AUTH)'], 'two texts with <=3 segments', ['equal', 'different'], 2400),
                                      R('equals-hosts', 'h_equals.c', ['KE=0', 'SEGL=1', 'EFLAGS=(G_AUTH_REQ|G_USERINFO|G_PORT|G_HOSTKINDS)'], 'two authorities of every shape', ['equal', 'different'], 2400)]},
    'assumptions': COMMON_ASSUME, 'bounds': {'quick': 'pairs of small shapes', 'thorough': 'plus <=3 segments and all authority shapes'}, 'outside': 'transitivity is implied by the proved equivalence with text identity, not asserted on triples'}

SPECS['C05']['runs']['quick'] += [HOSTS_RUN(['C05'], 900), HOSTS_RUN_W(['C05'], 900), IP4_RUN(['C05'], 900),
    R('resolved', 'h_resolve.c', ['P_C05', 'KB=1', 'KR=2', 'SEGL=1'] + RES_PATH, 'resolved URIs (base <=1, reference <=2 one-character segments) x every int maxChars', RESCOV, 600),
    R('normalized', 'h_norm.c', ['P_C05', 'KN=2', 'SEGL=1', 'NFLAGS=(G_SCHEME_OPT|G_AUTH|G_QUERY|G_FRAG)', 'MASKS=63'], 'normalised (owned) URIs with every optional component x every int maxChars', ['owned-in-place', 'borrowed-copying'], 600)]
SPECS['C05']['runs']['thorough'] += [HOSTS_RUN(['C05'], 2400), HOSTS_RUN_W(['C05'], 2400),
    R('resolved', 'h_resolve.c', ['P_C05'] + RES_CM, 'resolved URIs (mixed config) x every int maxChars', ['ref-has-scheme'], 3000),
    R('normalized', 'h_norm.c', ['P_C05'] + NORM_CASE + ['MASKS=63'], 'normalised URIs, all host kinds x every int maxChars', ['host-ip6'], 3000),
    R('references', 'h_shorten.c', ['P_C05'] + SHORT, 'created references x every int maxChars', ['schemes-differ'], 3000)]
# ---------------------------------------------------------------- C07: every producing operation, shared checker chk_reparse_stable
SPECS['C07'] = {'runs': {
    'quick': [R('parse', 'h_parse.c', ['P_C07', 'NMAX=5'], 'parsed URIs, all texts of length 0..5', ['accepted'], 400),
              R('parseIP', 'h_parse.c', ['P_C07', 'PREFIX="//["', 'NMAX=5'], 'parsed URIs with IP literals, "//[" + 0..5 chars', ['host-ip6'], 400),
              R('resolve', 'h_resolve.c', ['P_C07', 'KB=2', 'KR=2', 'SEGL=2'] + RES_PATH, 'resolved URIs (paths config of C06)', RESCOV, 400),
              R('resolve-k4', 'h_resolve.c', ['P_C07', 'KB=1', 'KR=4', 'SEGL=1'] + RES_PATH, 'resolved URIs, references of <=4 one-character segments (reaches .///x)', RESCOV, 600),
              R('resolve-k3', 'h_resolve.c', ['P_C07', 'KB=1', 'KR=3', 'SEGL=1'] + RES_PATH, 'resolved URIs, references of <=3 one-character segments', RESCOV, 300),
              R('resolve-mixed', 'h_resolve.c', ['P_C07'] + RES_CM, 'resolved URIs (mixed config of C06)', ['ref-has-scheme'], 600),
              R('shorten-colon', 'h_shorten.c', ['P_C07', 'KS=2', 'KB=2', 'SEGL=2', 'GEN_PATH_COLON', 'SFLAGS=(G_SCHEME_REQ|G_AUTH_REQ)', 'BFLAGS=(G_SCHEME_REQ|G_AUTH_REQ)'], 'created references, <=2 segments of <=2 chars over [a-z.:]', ['same-authority-relative'], 600),
              R('normalize', 'h_norm.c', ['P_C07'] + NORM_DOTS, 'normalised URIs (dots config of C08), masks {0, PATH, all, required}, borrowed and owned', ['owned-in-place', 'borrowed-copying'], 600),
              R('shorten', 'h_shorten.c', ['P_C07'] + SHORT, 'created references (paths config of C10)', ['same-authority-relative'], 600),
              R('chain3', 'h_shorten.c', ['P_C07', 'CHAIN3', 'KS=3', 'KB=1', 'SEGL=1', 'GEN_PATH_COLON', 'SFLAGS=(G_SCHEME_REQ|G_AUTH_REQ)', 'BFLAGS=(G_SCHEME_REQ|G_AUTH_REQ)'], 'three-operation histories: normalise(source, in place) -> create reference against a base -> resolve it again; source <=3 one-character segments over [a-z.:], base <=1 segment, authority on both sides', ['source-produced', 'third-operation'], 600, kf_of='C10'),
              R('make-owner-len2', 'h_owner.c', ['P_C07', 'KO=1', 'SEGL=2', 'GEN_COMP_L=2', 'OFLAGS=(G_SCHEME_OPT|G_SCHEME2|G_AUTH|G_USERINFO|G_PORT|G_QUERY|G_FRAG)'], 'owned copies with scheme / user info / port / segment / query / fragment of up to 2 characters', ['host-regname'], 600),
              R('make-owner', 'h_owner.c', ['P_C07', 'KO=1'], 'owned copies, every authority shape', ['host-ip4', 'host-ip6', 'host-ipfuture', 'host-regname', 'empty-host'], 600),
              R('chain', 'h_normres.c', ['P_C07', 'KB=1', 'KR=2', 'SEGL=2', 'GEN_PATH_COLON'], 'two-step histories: normalise->resolve->normalise and resolve->normalise on base<=1, reference<=2 segments', ['ref-relative-path'], 600, kf_of='C09')],
    'thorough': [R('parse', 'h_parse.c', ['P_C07', 'NMAX=6'], 'parsed URIs, length 0..6', ['accepted'], 2400),
              R('resolve-3', 'h_resolve.c', ['P_C07', 'KB=2', 'KR=3', 'SEGL=2'] + RES_PATH, 'resolved URIs, references of <=3 segments', RESCOV, 2400),
              R('resolve-colon', 'h_resolve.c', ['P_C07', 'KB=2', 'KR=2', 'SEGL=2', 'GEN_PATH_COLON'] + RES_PATH, 'resolved URIs, segments over [a-z.:]', RESCOV, 2400),
              R('normalize', 'h_norm.c', ['P_C07'] + NORM_DOTS, 'normalised URIs', ['owned-in-place'], 2400),
              R('shorten-3', 'h_shorten.c', ['P_C07', 'KS=3', 'KB=3', 'SEGL=1', 'GEN_PATH_COLON', 'SFLAGS=(G_SCHEME_REQ|G_AUTH)', 'BFLAGS=(G_SCHEME_REQ|G_AUTH)'], 'created references, <=3 segments over [a-z.:]', ['same-authority-relative'], 2400),
              R('chain-resolve-normalize', 'h_normres.c', ['P_C07', 'KB=2', 'KR=2', 'SEGL=2', 'GEN_PATH_COLON'], 'two-step histories normalise->resolve->normalise and resolve->normalise', ['ref-relative-path'], 2400, kf_of='C09'),
              R('make-owner', 'h_owner.c', ['P_C07', 'KO=2'], 'owned copies', ['host-ip6'], 2400)]},
    'assumptions': COMMON_ASSUME + ['histories: one operation after parsing (quick), plus the two-operation chains of h_normres (thorough); longer histories are not explored'],
    'bounds': {'quick': 'bounds of the owning harnesses (C01/C06/C08/C10/C12 quick)', 'thorough': 'larger bounds and two-step chains'}, 'outside': 'histories longer than two operations; the inductive INV step of DESIGN 5/C07 was not built'}

# ---------------------------------------------------------------- C12
SPECS['C12'] = {'runs': {
    'quick': [R('make-owner', 'h_owner.c', ['KO=1'], 'parse -> uriMakeOwner -> source text destroyed; every authority shape (user info, 4 host kinds, empty host, port), path<=1, query, fragment', ['host-ip4', 'host-ip6', 'host-ipfuture', 'host-regname', 'empty-host'], 600),
              R('make-owner-len2', 'h_owner.c', ['KO=1', 'SEGL=2', 'GEN_COMP_L=2', 'OFLAGS=(G_SCHEME_OPT|G_SCHEME2|G_AUTH|G_USERINFO|G_PORT|G_QUERY|G_FRAG)'], 'as make-owner with a scheme of 1..2 letters and user info, port, segment, query and fragment of 0..2 characters (reg-name hosts)', ['host-regname'], 600),
              R('normalize-kill', 'h_norm.c', ['P_C12'] + NORM_CASE, 'parse -> normalise (non-zero masks) -> source text destroyed; all host kinds', ['source-killed', 'host-ipfuture', 'host-ip4', 'host-ip6'], 600),
              R('normalize-kill-dots', 'h_norm.c', ['P_C12'] + NORM_DOTS, 'same with <=3 segment paths', ['source-killed'], 600),
              R('readonly-inputs', 'h_c20.c', ['NMAX=3'], 'bases, sources, comparison/recomposition/mask-query operands and query lists marked read-only during every call of a mixed workload', ['mixed-workload'], 600)],
    'thorough': [R('make-owner', 'h_owner.c', ['KO=2', 'SEGL=2'], 'as quick with <=2 segments of <=2 chars', ['host-ip6'], 2400),
              R('make-ownerW', 'h_owner.c', ['WIDE', 'KO=1'], 'wchar_t variant, every authority shape', ['host-ip6', 'host-ipfuture'], 2400),
              R('normalize-kill', 'h_norm.c', ['P_C12'] + NORM_CASE, 'as quick', ['source-killed'], 1200),
              R('normalize-kill-pct', 'h_norm.c', ['P_C12'] + NORM_PCT_T, 'with percent-encoded triplets in every component', ['source-killed'], 2400),
              R('readonly-inputs', 'h_c20.c', ['NMAX=4'], 'as quick, texts <=4', ['mixed-workload'], 2400)]},
    'assumptions': COMMON_ASSUME + ['"destroyed" = every later access to the source object is a violation in the executor (natively: the text is overwritten)', 'const URI arguments are read-only objects including segment nodes and IP data in every harness (ro_uri)'],
    'bounds': {'quick': 'shapes of the owner/normalise harnesses', 'thorough': 'larger shapes'}, 'outside': 'operation sequences longer than parse + one operation'}

# ---------------------------------------------------------------- C13 / C14
SPECS['C13'] = {'runs': {
    'quick': [R('incomplete', 'h_mm.c', ['INCOMPLETE'], 'every one or two of the five manager functions missing x all nine ...Mm entry points', ['incomplete-rejected'], 300),
              R('default', 'h_mm.c', [], 'memory == NULL for all nine entry points on a fixed URI/query', ['default-manager'], 300),
              R('parse', 'h_parse.c', ['P_C13', 'NMAX=5'], 'ledger balance and no libc allocator call for parse/free, texts 0..5', ['accepted'], 400),
              R('resolve', 'h_resolve.c', ['P_C13'] + RES_CM, 'ledger balance for resolve (mixed config)', ['ref-has-scheme'], 600),
              R('resolve-hosts', 'h_resolve.c', ['P_C13'] + RES_CB, 'ledger balance / allocator attribution for resolve with every host kind in the base', ['ref-has-scheme'], 600),
              R('shorten', 'h_shorten.c', ['P_C13'] + SHORT, 'ledger balance for reference creation', ['schemes-differ'], 600),
              R('normalize', 'h_norm.c', ['P_C13'] + NORM_DOTS, 'ledger balance for normalisation', ['owned-in-place', 'borrowed-copying'], 600),
              R('make-owner', 'h_owner.c', ['KO=1'], 'ledger balance for make-owner', ['host-ip6'], 600),
              R('query', 'h_query.c', ['MODE_DISSECT', 'NMAX=4'], 'ledger balance for dissect / free query list', ['several-items'], 300),
              R('compose-malloc', 'h_query.c', ['ITEMS=1', 'SEGL=1'], 'uriComposeQueryMallocExMm: one block from the manager, freed by the caller', ['round-trip'], 600)],
    'thorough': [R('incomplete', 'h_mm.c', ['INCOMPLETE'], 'as quick', ['incomplete-rejected'], 300), R('default', 'h_mm.c', [], 'as quick', ['default-manager'], 300),
              R('parse', 'h_parse.c', ['P_C13', 'NMAX=6'], 'texts 0..6', ['accepted'], 2400), R('parseIP', 'h_parse.c', ['P_C13', 'PREFIX="//["', 'NMAX=6'], 'IP literals', ['host-ip6'], 2400),
              R('resolve-3', 'h_resolve.c', ['P_C13', 'KB=2', 'KR=3', 'SEGL=2'] + RES_PATH, 'resolve, references of <=3 segments', RESCOV, 2400),
              R('shorten', 'h_shorten.c', ['P_C13'] + SHORT, 'reference creation', ['schemes-differ'], 1200),
              R('normalize-pct', 'h_norm.c', ['P_C13'] + NORM_PCT_T, 'normalisation with percent triplets', ['owned-in-place'], 2400),
              R('make-owner', 'h_owner.c', ['KO=2'], 'make-owner', ['host-ip6'], 2400), R('query-rt', 'h_query.c', ['ITEMS=2', 'SEGL=1'], 'compose/dissect round trip', ['round-trip'], 2400)]},
    'assumptions': COMMON_ASSUME + ['allocator attribution: blocks from the harness manager and from libc malloc are tagged in the executor ledger; releasing through the other one, an interior pointer or twice is a violation on any path'],
    'bounds': {'quick': 'bounds of the owning harnesses', 'thorough': 'larger'}, 'outside': 'uriComposeQueryMalloc result freed by the caller is covered in h_mm/h_aw only'}
FAILCOV = ['alloc-failure-injected']
SPECS['C14'] = {'runs': {
    'quick': [R('parse', 'h_parse.c', ['FAILING', 'NMAX=5'], 'every subset of failing allocations during parse, texts 0..5', FAILCOV, 600),
              R('resolve', 'h_resolve.c', ['FAILING', 'KB=2', 'KR=2', 'SEGL=2'] + RES_PATH, 'every subset of failing allocations during resolve; <=2 x <=2 segments of <=2 chars over [a-z.]', FAILCOV, 600),
              R('resolve-k3', 'h_resolve.c', ['FAILING', 'KB=1', 'KR=3', 'SEGL=1'] + RES_PATH, 'every subset of failing allocations during resolve; references of <=3 one-character segments', FAILCOV, 600),
              R('resolve-hosts', 'h_resolve.c', ['FAILING', 'KB=1', 'KR=1', 'SEGL=1', 'BFLAGS=(G_SCHEME_REQ|G_AUTH|G_HOSTKINDS)', 'RFLAGS=(G_AUTH|G_HOSTKINDS)'], 'every subset of failing allocations during resolve; all host kinds on both sides, <=1 segment', FAILCOV, 600),
              R('shorten', 'h_shorten.c', ['FAILING', 'KS=2', 'KB=2', 'SEGL=1', 'SFLAGS=(G_SCHEME_REQ|G_AUTH|G_HOSTKINDS)', 'BFLAGS=(G_SCHEME_REQ|G_AUTH)'], 'every subset of failing allocations during reference creation', FAILCOV, 600),
              R('normalize', 'h_norm.c', ['FAILING', 'KN=2', 'SEGL=1', 'NFLAGS=(G_SCHEME_OPT|G_AUTH|G_QUERY|G_PCT)', 'MASKS=8,63'], 'every subset of failing allocations during normalisation (PATH and all), borrowed and owned', FAILCOV + ['alloc-failure-borrowed'], 900),
              R('normalize-dots', 'h_norm.c', ['FAILING', 'KN=3', 'SEGL=2', 'NFLAGS=(G_SCHEME_OPT|G_AUTH)', 'MASKS=8'], 'every subset of failing allocations during PATH normalisation of <=3 segments of <=2 chars over [a-z.]', FAILCOV + ['alloc-failure-borrowed'], 900),
              R('make-owner', 'h_owner.c', ['FAILING', 'KO=2', 'OFLAGS=(G_SCHEME_OPT|G_AUTH|G_HOSTKINDS|G_QUERY)'], 'every subset of failing allocations during make-owner; all host kinds, <=2 segments (incl. empty ones)', FAILCOV, 600),
              R('dissect', 'h_query.c', ['MODE_DISSECT', 'FAILING', 'NMAX=4'], 'every subset of failing allocations during query dissection, texts 0..4', FAILCOV, 600)],
    'thorough': [R('parse', 'h_parse.c', ['FAILING', 'NMAX=6'], 'texts 0..6', FAILCOV, 2400),
              R('resolve', 'h_resolve.c', ['FAILING', 'KB=2', 'KR=3', 'SEGL=1', 'BFLAGS=(G_SCHEME_REQ|G_AUTH|G_HOSTKINDS)', 'RFLAGS=(G_AUTH|G_HOSTKINDS)'], 'references of <=3 segments', FAILCOV, 2400),
              R('shorten', 'h_shorten.c', ['FAILING', 'KS=3', 'KB=3', 'SEGL=1', 'SFLAGS=(G_SCHEME_REQ|G_AUTH|G_HOSTKINDS)', 'BFLAGS=(G_SCHEME_REQ|G_AUTH)'], '<=3 segments', FAILCOV, 2400),
              R('normalize', 'h_norm.c', ['FAILING', 'KN=2', 'SEGL=2', 'NFLAGS=(G_SCHEME_OPT|G_AUTH|G_QUERY|G_PCT)', 'MASKS=8,63'], '<=2 segments of <=2 tokens', FAILCOV, 2400),
              R('normalize-hosts', 'h_norm.c', ['FAILING'] + NORM_CASE, 'all host kinds, single-bit masks', FAILCOV, 2400),
              R('make-owner', 'h_owner.c', ['FAILING', 'KO=2'], 'all authority shapes, <=2 segments', FAILCOV, 2400),
              R('dissect', 'h_query.c', ['MODE_DISSECT', 'FAILING', 'NMAX=6'], 'texts 0..6', FAILCOV, 2400)]},
    'assumptions': COMMON_ASSUME + ['fault model: one symbolic boolean per allocation request made during the call under test (armed only around that call), i.e. every fail-once, fail-from-k-on and mixed pattern'],
    'bounds': {'quick': 'see runs', 'thorough': 'see runs'}, 'outside': 'uriComposeQueryMalloc (single allocation; its failure is covered by the repository test) and longer inputs'}

# ---------------------------------------------------------------- C15 .. C20
# thorough tiers also contain the targeted quick runs that have no deeper counterpart
for _p, _names in (('C09', ('normres-deep-base', 'normres-rel4', 'norm-rel4')), ('C07', ('resolve-k4',)), ('C11', ())):
    _have = set(r['name'] for r in SPECS[_p]['runs']['thorough'])
    for _r in SPECS[_p]['runs']['quick']:
        if _r['name'] in _names and _r['name'] not in _have: SPECS[_p]['runs']['thorough'].append(dict(_r))
# C13 also on the cleanup paths: the failure-injection runs of C14, decided for allocator attribution (the C14 assertions are foreign there)
for _t in ('quick', 'thorough'):
    for _r in SPECS['C14']['runs']['quick']:
        if _r['name'] in ('parse', 'resolve', 'resolve-hosts', 'shorten', 'normalize-dots', 'make-owner', 'dissect'):
            _q = dict(_r); _q['name'] += '-failing'; _q['bounds'] = 'allocator attribution on cleanup paths: ' + _q['bounds']; SPECS['C13']['runs'][_t].append(_q)
SPECS['C15'] = {'runs': {
    'quick': [R('history', 'h_memmgr.c', ['OPS=2'], 'every sequence of 2 operations (malloc/calloc/realloc/reallocarray/free) over 2 slots; malloc/realloc sizes arbitrary 64-bit; products from {0..3} x {0,1,2,3,2^63,SIZE_MAX,SIZE_MAX/3+1}; backend failure at any position; payload <= 2 bytes', ['two-allocations-two-releases', 'product-overflow', 'realloc-to-zero', 'realloc-failed-old-intact', 'realloc-grow-moved', 'realloc-shrink-in-place'], 600, opts={'solver_timeout_ms': 3000}),
              R('history-cap5', 'h_memmgr.c', ['OPS=2', 'CAP=5', 'TABN=1'], 'sequences of 2 operations with payloads of up to 5 bytes (shrinking a block to less than half of its size, growing it beyond twice); malloc/realloc sizes arbitrary 64-bit, element sizes 0', ['realloc-shrink-in-place', 'realloc-grow-moved'], 900),
              R('product', 'h_memmgr.c', ['OPS=1', 'MODE_PRODUCT'], 'calloc/reallocarray with one factor in 0..3 and the other an arbitrary 64-bit value', ['product-overflow'], 900, opts={'solver_timeout_ms': 3000}),
              R('selftest', 'h_memmgr.c', ['OPS=0', 'SELFTEST'], 'uriTestMemoryManager on the completed manager (concrete)', [], 300)],
    'thorough': [R('history', 'h_memmgr.c', ['OPS=2'], 'as quick', ['two-allocations-two-releases'], 900, opts={'solver_timeout_ms': 3000}),
              R('history-3', 'h_memmgr.c', ['OPS=3', 'TABN=2'], 'every sequence of 3 operations, product table {0, SIZE_MAX}', ['two-allocations-two-releases'], 2400, opts={'solver_timeout_ms': 3000}),
              R('product', 'h_memmgr.c', ['OPS=1', 'MODE_PRODUCT'], 'as quick', ['product-overflow'], 1200, opts={'solver_timeout_ms': 3000})]},
    'assumptions': COMMON_ASSUME + ['backend: logging malloc/free over the executor heap ledger (exact-pointer, once-only release is a built-in check), fails on a fresh symbolic boolean per request, refuses more than 8+CAP bytes'],
    'bounds': {'quick': '2 operations, 2 slots, payload <= 2 bytes', 'thorough': '3 operations'}, 'outside': 'longer histories, payloads > 2 bytes, products of two arbitrary 64-bit factors (64-bit symbolic multiply/divide: no verdict from CBMC in 600 s nor from z3/cvc5 at useful speed)'}
SPECS['C16'] = {'runs': {
    'quick': [R('escape', 'h_escape.c', ['MODE_ESC', 'NMAX=3'], 'all char strings over 1..255 of length 0..3; both flags; explicit range and NUL-terminated; round trip through uriUnescapeInPlaceEx', ['normalize-breaks', 'space-to-plus', 'nul-terminated', 'explicit-range'], 600),
              R('unescape', 'h_escape.c', ['NMAX=4'], 'all NUL-terminated char strings of length 0..4 (incl. truncated/malformed %); plus-to-space; all four break modes', ['decoded-something', 'nothing-decoded'], 600),
              R('unescape-tokens', 'h_escape.c', ['TOKENS', 'NMAX=3'], 'sequences of 0..3 tokens, each a symbolic character, a %XY triplet or a truncated pair %X with symbolic hex digits (up to 9 characters)', ['decoded-something'], 600),
              R('unescapeW', 'h_escape.c', ['WIDE', 'NMAX=3'], 'all wchar_t strings (32-bit values) of length 0..3', ['decoded-something'], 600)],
    'thorough': [R('escape', 'h_escape.c', ['MODE_ESC', 'NMAX=4'], 'length 0..4', ['normalize-breaks'], 2400), R('escapeW', 'h_escape.c', ['MODE_ESC', 'WIDE', 'NMAX=3'], 'wide, length 0..3', ['normalize-breaks'], 2400),
              R('unescape', 'h_escape.c', ['NMAX=6'], 'length 0..6', ['decoded-something'], 2400), R('unescape-tokens', 'h_escape.c', ['TOKENS', 'NMAX=4'], 'sequences of 0..4 tokens', ['decoded-something'], 2400), R('unescapeW', 'h_escape.c', ['WIDE', 'NMAX=4'], 'wide, length 0..4', ['decoded-something'], 2400)]},
    'assumptions': COMMON_ASSUME + ['oracle E: reference escaper/decoder (oracle/oracle_escape.h); output buffers are exact-size objects of 3n+1 / 6n+1 characters, the in-place buffer has exactly n+1'],
    'bounds': {'quick': 'N<=3 escape, N<=4 unescape', 'thorough': 'N<=4 / N<=6'}, 'outside': 'longer strings'}
SPECS['C17'] = {'runs': {
    'quick': [R('roundtrip', 'h_query.c', ['ITEMS=2', 'SEGL=1'], 'lists of 1..2 items, keys/values of 0..1 chars over 1..255, value NULL or not; both compose flags; every int capacity <= required+2', ['round-trip', 'too-large'], 900),
              R('dissect', 'h_query.c', ['MODE_DISSECT', 'NMAX=5'], 'all texts over 1..255 of length 0..5; plus-to-space; four break modes', ['several-items', 'no-items'], 600),
              R('dissectW', 'h_query.c', ['MODE_DISSECT', 'WIDE', 'NMAX=4'], 'wchar_t variant: all texts over 32-bit values of length 0..4 (reaches one percent triplet next to another character); plus-to-space; four break modes', ['several-items', 'no-items'], 600),
              R('roundtripW', 'h_query.c', ['WIDE', 'ITEMS=1', 'SEGL=1'], 'wchar_t variant: one item, key/value of 0..1 characters, value NULL or not; both compose flags; every int capacity', ['round-trip', 'too-large'], 600),
              R('arith', 'h_query.c', ['MODE_ARITH', 'ITEMS=3'], 'size arithmetic for 3 items with strlen returning an arbitrary size_t (signed-overflow check on)', ['size-computed', 'size-refused'], 900, opts={'solver_timeout_ms': 3000})],
    'thorough': [R('roundtrip', 'h_query.c', ['ITEMS=2', 'SEGL=1'], 'as quick', ['round-trip'], 1800), R('roundtrip-long', 'h_query.c', ['ITEMS=1', 'SEGL=2'], 'one item, key/value of 0..2 chars', ['round-trip'], 3000), R('roundtripW', 'h_query.c', ['WIDE', 'ITEMS=2', 'SEGL=1'], 'wide', ['round-trip'], 3000),
              R('dissect', 'h_query.c', ['MODE_DISSECT', 'NMAX=7'], 'length 0..7', ['several-items'], 2400),
              R('arith', 'h_query.c', ['MODE_ARITH', 'ITEMS=4'], '4 items', ['size-computed', 'size-refused'], 2400, opts={'solver_timeout_ms': 3000})]},
    'assumptions': COMMON_ASSUME + ['arith run: strlen/wcslen stubbed by an arbitrary 64-bit value (list of stubs: strlen, wcslen); signed overflow of add/sub/mul nsw is a violation'],
    'bounds': {'quick': '<=2 items of <=1 char; dissect N<=5; 3 items arithmetic', 'thorough': 'plus 1 item of <=2 chars, wide variant, N<=7, 4 items (2 items x 2 chars did not finish in 3000 s)'}, 'outside': 'longer lists and strings'}
SPECS['C18'] = {'runs': {
    'quick': [R('file', 'h_file.c', ['NMAX=4'], 'all Unix names and all backslash-only Windows names (drive-absolute, UNC with server, relative) over 1..255 of length 0..4; buffers of exactly the documented sizes', ['unix-absolute', 'unix-relative', 'win-drive', 'win-unc', 'win-relative'], 900),
              R('fileW', 'h_file.c', ['WIDE', 'NMAX=3'], 'wchar_t names over code points 1..255 of length 0..3', ['unix-absolute', 'win-unc'], 600),
              R('short-forms', 'h_file.c', ['SHORTFORMS'], 'file:/x and file:c:/x (concrete)', ['short-forms'], 100)],
    'thorough': [R('file', 'h_file.c', ['NMAX=5'], 'length 0..5', ['win-drive', 'win-unc'], 3000), R('fileW', 'h_file.c', ['WIDE', 'NMAX=4'], 'wide, code points 1..255, length 0..4', ['win-unc'], 3000),
                 R('short-forms', 'h_file.c', ['SHORTFORMS'], 'concrete', ['short-forms'], 100)]},
    'assumptions': COMMON_ASSUME + ['the produced URI string is fed to the real parser; one-before-the-object pointer formed in uriFilenameToUriString (lastSep = input - 1) is never dereferenced and is not a finding'],
    'bounds': {'quick': 'N<=4', 'thorough': 'N<=5, W N<=4'}, 'outside': 'longer names'}
def aw(mode, n, cov, budget=900): return R('aw-' + mode.lower(), 'h_aw.c', ['MODE_' + mode, 'NMAX=%d' % n], 'narrow text of 0..%d symbolic bytes 1..255, wide text = its widening; %s' % (n, mode.lower()), cov, budget)
SPECS['C19'] = {'runs': {
    'quick': [aw('PARSE', 4, ['accepted', 'rejected', 'make-owner', 'normalize']), aw('PAIR', 3, ['add-base', 'remove-base', 'pair-op-succeeded']), aw('ESC', 3, ['escape-unescape']),
              R('aw-esc-tokens', 'h_aw.c', ['MODE_ESC', 'TOKENS', 'NMAX=4'], 'sequences of 0..4 tokens (symbolic byte or %XY triplet with symbolic hex digits), wide = widened narrow; escape and unescape', ['escape-unescape'], 900), aw('QUERY', 3, ['dissect', 'compose']), aw('FILE', 3, ['filename'])],
    'thorough': [aw('PARSE', 6, ['accepted'], 3000), aw('PAIR', 4, ['pair-op-succeeded'], 3000), aw('ESC', 4, ['escape-unescape'], 3000), aw('QUERY', 5, ['compose'], 3000), aw('FILE', 5, ['filename'], 3000)]},
    'assumptions': COMMON_ASSUME + ['W output buffers are exact-size objects sized in characters; equality of results is asserted under the same path condition'],
    'bounds': {'quick': 'N<=4 (parse, to-string, make-owner, normalise, mask), N<=3 per operand (resolve, create reference, equals), N<=3 (escape, query, filename)', 'thorough': 'N<=6 / 4 / 4 / 5 / 5'}, 'outside': 'longer inputs'}
SPECS['C20'] = {'runs': {
    'quick': [R('footprint', 'h_c20.c', ['NMAX=3'], 'mixed workload of 12 public calls; reference and other text of 0..3 symbolic chars; shared base/query list read-only; the other thread\'s objects read-only', ['mixed-workload'], 900, expect_writable_globals=['defaultMemoryManager']),
              R('globals-parse', 'h_parse.c', ['P_C03', 'NMAX=4'], 'no store to any library global and no load from a writable one during parse', ['accepted'], 400, expect_writable_globals=['defaultMemoryManager'])],
    'thorough': [R('footprint', 'h_c20.c', ['NMAX=4'], 'as quick, texts 0..4', ['mixed-workload'], 3000, expect_writable_globals=['defaultMemoryManager']),
              R('globals-resolve', 'h_resolve.c', RES_CM, 'no store to library globals during resolve', ['ref-has-scheme'], 1200, expect_writable_globals=['defaultMemoryManager']),
              R('globals-normalize', 'h_norm.c', NORM_DOTS, 'no store to library globals during normalise', ['owned-in-place'], 1200, expect_writable_globals=['defaultMemoryManager'])]},
    'assumptions': COMMON_ASSUME + ['premises decided symbolically: (i) the only writable static object in the linked library IR is defaultMemoryManager and no path stores to a library global, (ii) no path stores to a read-only shared input, (iii) no path of one thread\'s calls stores to the other thread\'s objects; the interleaving quantifier follows by the footprint argument of DESIGN.md (not explored by the solver); allocator thread-safety is assumed'],
    'bounds': {'quick': 'texts <=3', 'thorough': 'texts <=4'}, 'outside': 'the schedule quantifier itself; thread-safety of the memory manager behind the calls'}

# ---------------------------------------------------------------- thorough only: minimal shapes with every character over its FULL RFC 3986 class
WIDE = ['GEN_WIDE_CHARS']
SPECS['C06']['runs']['thorough'].append(R('resolve-wide-chars', 'h_resolve.c', ['P_C06', 'KB=1', 'KR=1', 'SEGL=1', 'BFLAGS=(G_SCHEME_REQ|G_AUTH)', 'RFLAGS=(G_SCHEME_OPT|G_QUERY)'] + WIDE, 'base x:[//h][/s], reference [x:][s][?q] with every character over its full class', ['ref-merged'], 3000))
SPECS['C08']['runs']['thorough'].append(R('norm-wide-chars', 'h_norm.c', ['P_C08', 'KN=1', 'SEGL=2', 'NFLAGS=(G_SCHEME_OPT|G_AUTH|G_QUERY)', 'MASKS=0,63'] + WIDE, '[x:][//h][/ss][?q] with every character over its full class', ['normal-form-compared'], 3000))
SPECS['C10']['runs']['thorough'].append(R('shorten-wide-chars', 'h_shorten.c', ['P_C10', 'KS=1', 'KB=1', 'SEGL=1', 'SFLAGS=(G_SCHEME_REQ|G_AUTH)', 'BFLAGS=(G_SCHEME_REQ|G_AUTH)'] + WIDE, 'x:[//h][/s] pairs with every character over its full class', ['schemes-differ'], 3000))
SPECS['C11']['runs']['thorough'].append(R('equals-wide-chars', 'h_equals.c', ['KE=1', 'SEGL=1', 'EFLAGS=(G_SCHEME_OPT|G_AUTH)'] + WIDE, '[x:][//h][/s] pairs with every character over its full class', ['equal', 'different'], 3000))
