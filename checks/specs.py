# Per-property check specifications: which harness runs decide the property at which bounds.
def R(name, harness, defines, bounds, must_cover=(), budget_s=600, **kw):
    d = {'name': name, 'harness': harness, 'defines': list(defines), 'bounds': bounds, 'must_cover': list(must_cover), 'budget_s': budget_s}
    d.update(kw); return d

COMMON_ASSUME = [
    'memory manager: harness ledger allocator (mm.h), allocation never fails unless the run is marked FAILING',
    'libc leaves strlen/wcslen/strncmp/wcsncmp/memcmp executed from harness/uk_libc.c; memcpy/memset are executor built-ins with C semantics',
    'x86-64 LP64 data layout, wchar_t = 32 bit, clang-14 front end; IR is unoptimised (+sroa)',
    'pointers are concrete along a path; relational comparison of pointers into different objects is evaluated on deterministic fake addresses and listed in ub_notes',
]

def parse_runs(pid, props, nq, nt, wq, wt, mq, mt, extra=()):
    P = ['P_' + p for p in props]
    def mk(n, w, m, budget):
        rs = [R('parseA', 'h_parse.c', P + ['NMAX=%d' % n], 'A: all char strings of length 0..%d' % n, ['accepted', 'rejected-incomplete', 'rejected-at-deadpos', 'rejected-inside-ip-literal'], budget)]
        if w is not None: rs.append(R('parseW', 'h_parse.c', P + ['WIDE', 'NMAX=%d' % w], 'W: all wchar_t strings (32-bit values) of length 0..%d' % w, ['accepted'], budget))
        if m is not None: rs.append(R('parseIP', 'h_parse.c', P + ['PREFIX="//["', 'NMAX=%d' % m], 'A: "//[" followed by every char string of length 0..%d' % m, ['host-ip6', 'rejected-inside-ip-literal'] + (['host-ipfuture'] if m >= 5 else []), budget))
        return rs
    return {'quick': mk(nq, wq, mq, 400) + list(extra), 'thorough': mk(nt, wt, mt, 2400) + list(extra)}

SPECS = {}
SPECS['C01'] = {'runs': parse_runs('C01', ['C01'], 6, 7, 4, 5, 6, 7), 'assumptions': COMMON_ASSUME + ['oracle G: minimal DFA generated on every run from doc/rfc3986_grammar_only.txt (ABNF string literals case-insensitive per RFC 5234)'],
    'bounds': {'quick': 'N<=6 (char), N<=4 (wchar_t), IP-literal tail M<=6', 'thorough': 'N<=7 (char), N<=5 (wchar_t), M<=7'},
    'outside': 'longer texts; entry points other than uriParseSingleUriExMm are covered by the h_entry run'}
SPECS['C02'] = {'runs': parse_runs('C02', ['C02'], 6, 7, 4, 5, 6, 7), 'assumptions': COMMON_ASSUME + ['oracle S: RFC 3986 Appendix B splitter + numeric IPv4/IPv6 evaluation (oracle/oracle_split.h)'],
    'bounds': {'quick': 'N<=6 (char), N<=4 (wchar_t), IP-literal tail M<=6', 'thorough': 'N<=7, W N<=5, M<=7'}, 'outside': 'longer texts'}
SPECS['C03'] = {'runs': parse_runs('C03', ['C03'], 6, 7, 4, 5, 6, 7, extra=[
        R('parseMID', 'h_parse.c', ['P_C03', 'P_C02', 'MID', 'NMAX=5'], 'range of length 0..5 in the middle of a buffer with 2 symbolic characters on each side', ['accepted'], 600),
        R('parseFAIL', 'h_parse.c', ['P_C03', 'FAILING', 'NMAX=5'], 'every subset of failing allocations, texts of length 0..5', ['alloc-failure-injected'], 600)]),
    'assumptions': COMMON_ASSUME, 'bounds': {'quick': 'N<=6 / W N<=4 / M<=6; mid-buffer and failure injection N<=5', 'thorough': 'N<=7 / W 5 / M<=7'}, 'outside': 'longer texts'}
SPECS['C04'] = {'runs': parse_runs('C04', ['C04'], 5, 6, 3, 4, 5, 6), 'assumptions': COMMON_ASSUME, 'bounds': {'quick': 'N<=5, W N<=3, M<=5', 'thorough': 'N<=6, W 4, M<=6'}, 'outside': 'longer texts'}
SPECS['C05'] = {'runs': parse_runs('C05', ['C05'], 4, 5, 3, 4, 4, 5), 'assumptions': COMMON_ASSUME + ['maxChars: one unconstrained symbolic 32-bit int per URI; charsWritten NULL or not is a symbolic choice'],
    'bounds': {'quick': 'parsed URIs N<=4 (W 3, M<=4) x every int maxChars', 'thorough': 'N<=5 (W 4, M 5)'}, 'outside': 'ranges >= 2^31 characters'}

# ---------------------------------------------------------------- URI-level operations (shape-bounded texts, see harness/gen.h)
KFN = []   # known-finding defines are added by ./check from known_findings.json
RES_PATH = ['BFLAGS=(G_SCHEME_REQ|G_AUTH)', 'RFLAGS=0']
RES_CB = ['KB=0', 'KR=1', 'SEGL=1', 'BFLAGS=(G_SCHEME_REQ|G_AUTH_REQ|G_USERINFO|G_PORT|G_HOSTKINDS)', 'RFLAGS=(G_SCHEME_OPT|G_QUERY)']
RES_CR = ['KB=1', 'KR=0', 'SEGL=1', 'BFLAGS=(G_SCHEME_REQ|G_AUTH|G_QUERY)', 'RFLAGS=(G_SCHEME_OPT|G_AUTH_REQ|G_USERINFO|G_PORT|G_HOSTKINDS|G_FRAG)']
RES_CM = ['KB=1', 'KR=1', 'SEGL=1', 'BFLAGS=(G_SCHEME_REQ|G_AUTH|G_QUERY)', 'RFLAGS=(G_SCHEME_OPT|G_AUTH|G_QUERY|G_FRAG)']
RES_REL = ['KB=1', 'KR=1', 'SEGL=1', 'BFLAGS=(G_SCHEME_OPT|G_AUTH)', 'RFLAGS=(G_SCHEME_OPT)']
RESCOV = ['ref-absolute-path', 'ref-merged', 'ref-empty-path']
def resolve_runs(P, tier):
    P = ['P_' + p for p in P]
    rs = [R('resolve-paths', 'h_resolve.c', P + ['KB=2', 'KR=2', 'SEGL=2'] + RES_PATH, 'base "x:" [//host] + <=2 segments, reference = path of <=2 segments (optional leading /), segments <=2 chars over [a-z.]; strict and compat mode', RESCOV + ['slash-dot-guard-expected'], 400),
          R('resolve-base-authority', 'h_resolve.c', P + RES_CB, 'base with every authority shape (user info none/empty/1 char, host reg-name/IPv4/IPv6/IPvFuture, port none/empty/1 digit), reference [scheme] path<=1 seg [?query]', RESCOV + ['ref-has-scheme'], 400),
          R('resolve-mixed', 'h_resolve.c', P + RES_CM, 'base scheme [//host] path<=1 [?q]; reference [scheme] [//host] path<=1 [?q] [#f]; 1-char segments', RESCOV + ['ref-has-scheme', 'ref-has-authority'], 600),
          R('resolve-relative-base', 'h_resolve.c', P + RES_REL, 'base with or without scheme (error code for relative base)', ['relative-base'], 300)]
    if tier == 'thorough':
        rs += [R('resolve-paths-3', 'h_resolve.c', P + ['KB=2', 'KR=3', 'SEGL=2'] + RES_PATH, 'as resolve-paths with references of <=3 segments', RESCOV, 1500),
               R('resolve-ref-authority', 'h_resolve.c', P + RES_CR, 'reference with every authority shape, base scheme [//host] path<=1 [?q]', ['ref-has-authority', 'ref-has-scheme'], 2400)]
    return rs
SPECS['C06'] = {'runs': {'quick': resolve_runs(['C06'], 'quick'), 'thorough': resolve_runs(['C06'], 'thorough')},
    'assumptions': COMMON_ASSUME + ['oracle R: RFC 3986 5.2.2/5.2.3 and segment-wise dot removal on strings (oracle/oracle_resolve.h); filler characters symbolic over [a-z], path characters over [a-z.]; IPv6 hosts in full lowercase form'],
    'bounds': {'quick': 'base<=2 x ref<=2 segments of <=2 chars (paths); all authority shapes on the base with 1-segment refs; mixed optional components with 1-char segments', 'thorough': 'plus ref<=3 segments and all authority shapes on the reference'},
    'outside': 'longer paths, other characters than the class representatives, products of all optional components at once'}

NORM_CASE = ['KN=1', 'SEGL=1', 'GEN_ALPHA_CASE', 'NFLAGS=(G_SCHEME_OPT|G_AUTH|G_HOSTKINDS)']
NORM_PCT_Q = ['KN=1', 'SEGL=1', 'NFLAGS=(G_AUTH|G_QUERY|G_PCT)', 'MASKS=0,2,4,8,16,63']
NORM_PCT_T = ['KN=1', 'SEGL=1', 'NFLAGS=(G_AUTH|G_USERINFO|G_QUERY|G_FRAG|G_PCT)']
NORM_DOTS = ['KN=3', 'SEGL=2', 'GEN_PATH_COLON', 'NFLAGS=(G_SCHEME_OPT|G_AUTH)', 'MASKS=0,8,63']
def norm_runs(P, tier, full=True):
    cov0 = 'normal-form-compared' if 'C08' in P else 'relative-path-ref' if 'C09' in P else 'owned-in-place'
    P = ['P_' + p for p in P]
    rs = [R('norm-dots', 'h_norm.c', P + NORM_DOTS, '[scheme] [//host] path of <=3 segments of <=2 chars over [a-z.:]; masks {0, PATH, all, required}; borrowed and owned', [cov0, 'owned-in-place', 'borrowed-copying'], 600)]
    if full:
        rs += [R('norm-case', 'h_norm.c', P + NORM_CASE, '[scheme] [//authority with every host kind] path<=1: letters of scheme and host symbolic over both cases; masks {0, each single bit, all, required}', [cov0, 'host-ip4', 'host-ip6', 'host-ipfuture', 'host-regname'], 400),
               R('norm-pct', 'h_norm.c', P + (NORM_PCT_T if tier == 'thorough' else NORM_PCT_Q), 'one percent-encoded triplet with symbolic hex digits at any position of host / path / query (thorough: also user info, fragment)', [cov0], 2400 if tier == 'thorough' else 600)]
    if tier == 'thorough':
        rs.append(R('norm-fullmask', 'h_norm.c', P + ['KN=1', 'SEGL=1', 'FULLMASK', 'GEN_ALPHA_CASE', 'NFLAGS=(G_SCHEME_OPT|G_AUTH|G_QUERY)'], 'all 64 masks (symbolic mask byte) on [scheme] [//host] path<=1 [?q]', [cov0], 2400))
    return rs
SPECS['C08'] = {'runs': {'quick': norm_runs(['C08'], 'quick'), 'thorough': norm_runs(['C08'], 'thorough')},
    'assumptions': COMMON_ASSUME + ['oracle N: RFC 3986 6.2.2 normal form on strings (oracle/oracle_norm.h); where plain dot removal would need a guard prefix (classes ON_CLS_*) C08 pins no text and C07/C09 apply'],
    'bounds': {'quick': 'see runs: <=3 segments of <=2 chars; one percent triplet; masks {0, single bits, all, required}', 'thorough': 'plus all 64 masks on small shapes, triplets in every component'}, 'outside': 'longer inputs; several triplets at once'}
SPECS['C09'] = {'runs': {'quick': [R('normres', 'h_normres.c', ['KB=2', 'KR=2', 'SEGL=2', 'GEN_PATH_COLON'], 'base "x:" [//host] <=2 segments; reference [scheme] [//host] <=2 segments, <=2 chars over [a-z.:]', ['ref-absolute', 'ref-network-path', 'ref-absolute-path', 'ref-relative-path'], 600)] + norm_runs(['C09'], 'quick', full=False),
                         'thorough': [R('normres', 'h_normres.c', ['KB=2', 'KR=3', 'SEGL=2', 'GEN_PATH_COLON'], 'as quick with references of <=3 segments', ['ref-relative-path'], 2400)] + norm_runs(['C09'], 'thorough', full=False)},
    'assumptions': COMMON_ASSUME + ['references contain no percent-encoding (so no percent-encoded dot segment), as the property states'],
    'bounds': {'quick': 'base<=2, reference<=2 segments of <=2 chars', 'thorough': 'reference<=3 segments'}, 'outside': 'longer paths'}
SHORT = ['KS=2', 'KB=2', 'SEGL=1', 'SFLAGS=(G_SCHEME_REQ|G_AUTH)', 'BFLAGS=(G_SCHEME_REQ|G_AUTH)']
def shorten_runs(P, tier):
    P = ['P_' + p for p in P]
    rs = [R('shorten-paths', 'h_shorten.c', P + SHORT, 'S and B: scheme [//host] <=2 segments of <=1 char over [a-z.]; both modes', ['schemes-differ', 'same-authority-domain-root', 'same-authority-relative'], 600),
          R('shorten-authority', 'h_shorten.c', P + ['KS=1', 'KB=1', 'SEGL=1', 'SFLAGS=(G_SCHEME_REQ|G_AUTH_REQ|G_USERINFO|G_PORT)', 'BFLAGS=(G_SCHEME_REQ|G_AUTH_REQ|G_USERINFO|G_PORT)'], 'S and B with user info none/empty/1 char and port none/empty/1 digit, <=1 segment', ['same-authority-relative'], 600),
          R('shorten-nonabsolute', 'h_shorten.c', P + ['KS=1', 'KB=1', 'SEGL=1', 'SFLAGS=(G_SCHEME_OPT|G_AUTH)', 'BFLAGS=(G_SCHEME_OPT|G_AUTH)'], 'S or B without scheme (error codes)', ['non-absolute-rejected'], 300)]
    if tier == 'thorough':
        rs.append(R('shorten-paths-3', 'h_shorten.c', P + ['KS=3', 'KB=3', 'SEGL=1', 'GEN_PATH_COLON', 'SFLAGS=(G_SCHEME_REQ|G_AUTH|G_QUERY)', 'BFLAGS=(G_SCHEME_REQ|G_AUTH|G_QUERY)'], '<=3 segments over [a-z.:], optional queries', ['same-authority-relative'], 2400))
    return rs
SPECS['C10'] = {'runs': {'quick': shorten_runs(['C10'], 'quick'), 'thorough': shorten_runs(['C10'], 'thorough')},
    'assumptions': COMMON_ASSUME + ['inverse check uses the real resolver (uriAddBaseUriExMm, decided by C06) and oracle R for dot-segment normalisation'],
    'bounds': {'quick': '<=2 segments of 1 char each side', 'thorough': '<=3 segments, queries'}, 'outside': 'longer paths'}
SPECS['C11'] = {'runs': {'quick': [R('equals', 'h_equals.c', ['KE=1', 'SEGL=1', 'EFLAGS=(G_SCHEME_OPT|G_AUTH|G_QUERY|G_FRAG)'], 'two texts: [scheme] [//host] path<=1 segment [?q] [#f], 1-char pieces', ['equal', 'different'], 600)],
                         'thorough': [R('equals', 'h_equals.c', ['KE=1', 'SEGL=1', 'EFLAGS=(G_SCHEME_OPT|G_AUTH|G_QUERY|G_FRAG)'], 'as quick', ['equal', 'different'], 900),
                                      R('equals-paths', 'h_equals.c', ['KE=3', 'SEGL=1', 'EFLAGS=(G_SCHEME_OPT|G_AUTH)'], 'two texts with <=3 segments', ['equal', 'different'], 2400),
                                      R('equals-hosts', 'h_equals.c', ['KE=0', 'SEGL=1', 'EFLAGS=(G_AUTH_REQ|G_USERINFO|G_PORT|G_HOSTKINDS)'], 'two authorities of every shape', ['equal', 'different'], 2400)]},
    'assumptions': COMMON_ASSUME, 'bounds': {'quick': 'pairs of small shapes', 'thorough': 'plus <=3 segments and all authority shapes'}, 'outside': 'transitivity is implied by the proved equivalence with text identity, not asserted on triples'}
